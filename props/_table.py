"""Per-property assembly table (levels, stand-ins, explanations)."""

TECH = 'contract-based deductive verification (self-generated VCs from the AST of the real functions, z3)'

TABLE = {
    'C03': dict(level='other', bounded=[('c03_opcontract.py', 'instrumented operators check the calling contract at every dynamic invocation')],
                explanation='proved: the state-variable selection contracts (_get_block_vars: duplicate-free, outputs first, nouts bounds) and '
                            'the callback arities of the default operators (event mode); _create_state_functions builds the getter list '
                            'with one entry per block variable, in order (the variable itself when simple, its ldu-guarded read when '
                            'composite); assumed with a bounded stand-in: the template call sites (getter list / tuple(block_vars) / '
                            'symbol-name tuple come from the same list) and that loop options carry the directives; proved since (event mode, contracts/'
                            'c04_converters.py): the if / while / for visitors hand the SAME block-variable list to the state functions, the '
                            'nonlocal declarations and the symbol-name tuple, and the break / continue / return lowering (guard variable, guarded else, '
                            'extra loop test, else clause visited outside the loop scope)'),
    'C04': dict(level='other', bounded=[('c04_scan.py', 'NoNative scan of to_code + operator invocation counts, constructs planted in every context')],
                explanation='proved (event mode): PyToPy.transform_ast runs exactly the documented pass pipeline, in order, asserts / '
                            'lists+slices only under their feature flag (trace equivalence with the specification program); the visitors that do '
                            'the routing, each against a specification program taken from the construct -> operator table (contracts/'
                            'c04_converters.py): conditional expression -> ag__.if_exp, assert -> ag__.assert_stmt, unary / binary operators '
                            'with an overload, calls -> ag__.converted_call with the four exemptions, variable loads -> ag__.ld, list display / '
                            'append -> ag__.new_list / list_append, if / while / for -> ag__.if_stmt / while_stmt / for_stmt with the block '
                            'variables, reserved names, empty-else padding, extra loop test and iterate expansion, break, continue and return lowering; '
                            'the template text, every replacement and their order are compared; templates.replace itself, generic_visit and '
                            'the remaining visitors (slices, directives, return lowering, Compare / BoolOp chains, visit_Continue) are '
                            'assumed with the bounded stand-in: AST scan of the generated code with the NoNative predicate and dynamic '
                            'operator counts'),
    'C06': dict(level='other', bounded=[('c06_lastwriter.py', 'last-writer oracle on executed programs + fixed-point check on every graph'),
                                        ('rt_worklist.py', 'worklist fixed-point contract on small graphs'),
                                        ('rt_rd.py', 'run-time evaluation of the transfer-function contract and of the assumed _NodeState contracts')],
                explanation='proved: the worklist fixed point of cfg.GraphVisitor (shared with C07); the reaching-definitions transfer '
                            'function (in = join of the predecessors\' out, gen created once per node with one definition per bound/global '
                            'non-deleted name and per parameter, out = gen | (in - kill), revisit iff out changed, nothing else touched) and '
                            'the refinement lemma (visit_node satisfies the abstract contract the fixed-point proof relies on, with stable = '
                            'the RD equation); a syntactic frame obligation shows states are immutable once built; assumed with bounded '
                            'stand-ins: the _NodeState value type operations (|, -, ==, construction; run-time checked) and the end-to-end '
                            'last-writer soundness'),
    'C08': dict(level='other', bounded=[('c08_activity.py', 'symtable comparison per function + dynamic read/write log per executed statement'),
                                        ('rt_scope.py', 'run-time evaluation of the Scope / recorder contracts on random scope chains')],
                explanation='proved: the Scope algebra (finalize: a block scope reports everything but its isolated names to its parent, '
                            'a function scope only read - bound and unbound annotations, nothing else changes; referenced = read | bound '
                            'up the chain; free_vars; enclosing_scope; mark_param; __init__ owns fresh sets) and the recorder kernel '
                            '(_track_symbol: Store -> modified+bound (+read in an augmented assignment, +parent for composite writes), '
                            'Load -> read (+annotations), Del -> read+bound+deleted; _enter_scope / _exit_scope); assumed with a bounded '
                            'stand-in: the per-construct visitors that decide which nodes reach the recorder in which scope '
                            '(symtable and dynamic read/write oracles)'),
    'C02': dict(level='other', bounded=[('c02_functional.py', 'side-effect-free functional backend installed as the operators, compared with the original'),
                                        ('rt_blockvars.py', 'run-time evaluation of the state-selection contracts on small inputs')],
                explanation='proved: state-variable selection (_get_block_basic_vars/_get_block_composite_vars/_get_block_vars: exactly the '
                            'modified simple variables that are live in/out or nonlocal, composites with live support, outputs first, '
                            'nouts) and liveness kernels (C07); assumed with a bounded stand-in: end-to-end state completeness under a '
                            'functional backend'),
    'C05': dict(level='other', bounded=[('c05_paths.py', 'well-formedness of every built graph + probe-trace path inclusion')],
                explanation='proved: "successor and predecessor links mirror each other" is an invariant of the edge-creating primitives '
                            '(_connect_nodes in both of its cases adds exactly the requested edges to next AND prev and removes nothing; '
                            '_add_new_node / add_ordinary_node / _add_jump_node create an edge-free node, connect every current leaf to it, '
                            'and set the new leaf set; Node.freeze keeps the members), and a syntactic frame obligation shows that no other '
                            'code of cfg.py writes the edge sets or creates nodes; assumed: the builder rep invariant at each call '
                            '(tables owned, pending finally sections recorded); assumed with a bounded stand-in: single entry, reachability, '
                            'stmt_next/stmt_prev agreement on every built graph, and that executed probe traces are CFG paths'),
    'C09': dict(level='other', bounded=[('c09_interface.py', 'signature/defaults/globals/closure identity and call bindings over all signature shapes')],
                explanation='proved: _erase_arg_defaults replaces every default / non-None kw_default by the None literal, keeps the '
                            'number of slots and touches nothing else (so the placeholder signature has the same parameters and the real '
                            'defaults are re-attached by instantiate); _PythonFnFactory.instantiate matches closure cells to the factory\'s '
                            'free variables BY NAME (cell i is the original cell of the variable of the same name, whatever order and subset '
                            'the generated code references), passes the same globals dict and the same code object, and re-attaches defaults '
                            'and keyword-only defaults unconditionally; transform_function hands the requesting function\'s own globals, '
                            'closure and defaults to instantiate (event mode); assumed (T): types.FunctionType, immutability of tuples / '
                            'function attributes across the factory call; assumed with a bounded stand-in: the generated factory source '
                            '(_wrap_into_factory) and end-to-end signature, defaults, globals, closure identity and call bindings'),
    'C10': dict(level='other', bounded=[('c10_cache.py', 'random request histories x option sets x 1..32 threads against fresh conversions'),
                                        ('rt_cache.py', 'run-time evaluation of the cache contracts over create / store / drop / collect histories')],
                explanation='proved: the cache data structure (_TransformedFnCache.has/__getitem__, CodeObjectCache/UnboundInstanceCache '
                            '_get_key), the options value type used as sub-key (C20), and (event mode) the double-checked-locking protocol of '
                            'PyToPy.transform_function: lock-free lookup, second lookup under the lock, transform + create strictly before '
                            'publishing under (function, options), instantiation with the requesting function\'s own globals, closure and '
                            'defaults; assumed: the lock is a mutual-exclusion lock (sequential trace equivalence does not model '
                            'interleavings); bounded stand-in: random request histories on 1..32 threads against fresh conversions'),
    'C11': dict(level='other', bounded=[('c11_names.py', 'adversarial renaming to the converter vocabulary, differential run + new_symbol log'),
                                        ('rt_namer.py', 'run-time evaluation of the new_symbol contract')],
                explanation='proved: Namer.new_symbol never returns a name of the namespace, a reserved name (QNs flattened) or an earlier '
                            'generated name; Scope.referenced (what the converters pass as reserved names) contains every name read or bound in the scope '
                            'or an ancestor; the per-function driver seeds the namer with the function\'s own namespace (event mode); assumed '
                            'with a bounded stand-in: every call site passes the scope of the code it rewrites'),
    'C12': dict(level='other', bounded=[('c12_errors.py', 'one failing statement at any position/depth, callee chains <= 4, traceback and source-map oracle'),
                                        ('rt_errors.py', 'run-time evaluation of the create_exception decision table over an exception-class zoo'),
                                        ('rt_origin.py', 'run-time evaluation of the OriginResolver contracts: every annotated node maps to the file line holding its own text')],
                explanation='proved (event mode): ErrorMetadataBase.create_exception and api._ErrorMetadata.create_exception are trace-equivalent '
                            'to the decision table taken from the property (same type iff no initialiser of its own or listed; KeyError subclass; '
                            'StagingError otherwise); origin information is resolved on the freshly parsed tree before any rewriting (event mode, '
                            'GenericTranspiler.transform_function); the line arithmetic of the origin annotations (OriginResolver.__init__, _absolute_lineno, '
                            '_absolute_col_offset: the first line of the parsed text -- first decorator, else the def -- is the file line inspect '
                            'reports, for all line numbers); assumed with a bounded stand-in: stack translation and the source map'),
    'C13': dict(level='other', bounded=[('c13_zoo.py', 'callable zoo x argument shapes x options x injected pipeline failures'),
                                        ('rt_convcall.py', 'one concrete call per policy branch + disabled-then-enabled sequence (replay of the event contract)')],
                explanation='proved (event mode, all callbacks, all argument shapes): converted_call is trace-equivalent to the documented policy '
                            'table written as a specification program (which targets run unconverted and whether that is remembered, the call '
                            'of a partial, routing of builtins, what is converted and with which effective arguments, fall-back with one warning '
                            'and remembering, target exceptions never swallowed), _call_unconverted invokes the target exactly once with the '
                            'same binding; Rule.matches and the allow-list cache structure proved; policy predicates (is_allowlisted, '
                            'is_unsupported, isbuiltin) are uninterpreted: their tables are exercised by the bounded zoo only'),
    'C14': dict(level='other', bounded=[('c14_builtins.py', 'every call shape of the 13 builtins over value classes + context-sensitive builtins in nested bodies')],
                explanation='proved (event mode): abs_/float_/int_/len_/range_/enumerate_/next_/filter_/any_/all_/sorted_ perform exactly one call of '
                            'the builtin with the arguments as supplied, for every call shape (omitted optionals are symbolic sentinels), when no '
                            'override is registered; bounded stand-in: value-level comparison incl. laziness and error types, print/zip/map, and '
                            'the context-sensitive builtins'),
    'C15': dict(level='other', bounded=[('c15_source.py', 'layout grammar for defs and lambdas, recovered tree vs the node compiled by the interpreter'),
                                        ('rt_argspec.py', 'run-time evaluation of the signature-match contract on all pairs of a signature space')],
                explanation='proved: _node_matches_argspec accepts a candidate lambda exactly when its parameter names agree with the '
                            'function object kind by kind and in order (positional-only then positional-or-keyword, *args, keyword-only, '
                            '**kwargs), _arg_name; assumed (T): what inspect.getfullargspec reports; assumed with a bounded stand-in: '
                            'source recovery, continuation unfolding and candidate enumeration'),
    'C18': dict(level='other', bounded=[('c18_anf.py', 'side-effecting calls in every operand position, default and random configurations')],
                explanation='proved: the ANF bookkeeping kernels (gensym counter strictly increases, pending statements are appended in '
                            'evaluation order and handed over exactly once); assumed with a bounded stand-in: the traversal itself '
                            '(evaluation order of hoisted operands, configuration matching)'),
    'C19': dict(level='other', bounded=[('c19_types.py', 'truthful resolver, run-time type log vs TYPES / CLOSURE_TYPES')],
                explanation='proved: the shared worklist fixed point; closure types accumulate (_update_closure_types never forgets a '
                            'recorded type and afterwards covers every type of every variable of the current map, so what is recorded for '
                            'a local function covers the captured variables at each call site); the state value type (_TypeMap copy owns its '
                            'sets; | is the pointwise union into a new map and leaves its operands alone); the reaching-function-'
                            'definitions analysis that selects the local functions (C07); assumed (T): annotation keys store and '
                            'return the annotation object; bounded stand-in for the per-statement inference and the joins themselves'),
    'C17': dict(level='other', bounded=[('c17_tree.py', 'tree-ness, ctx, compile, reparse identity, to_code text vs loaded module')],
                explanation='proved (event mode): to_code returns the dedented source of the very function object that to_graph loads for '
                            'the same arguments, and transform_ast is the documented pipeline; assumed with a bounded stand-in: tree-ness, '
                            'ctx fields, compile and reparse identity of the pipeline output'),
}
