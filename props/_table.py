"""Per-property assembly table (levels, stand-ins, explanations)."""

TECH = 'contract-based deductive verification (self-generated VCs from the AST of the real functions, z3)'

TABLE = {
    'C03': dict(level='other', bounded=[('c03_opcontract.py', 'instrumented operators check the calling contract at every dynamic invocation')],
                explanation='proved: the state-variable selection contracts (_get_block_vars: duplicate-free, outputs first, nouts bounds) and '
                            'the callback arities of the default operators (event mode); assumed with a bounded stand-in: the emitted '
                            'getter/setter/symbol-name tuples agree position-wise and loop options carry the directives'),
    'C04': dict(level='other', bounded=[('c04_scan.py', 'NoNative scan of to_code + operator invocation counts, constructs planted in every context')],
                explanation='bounded stand-in (AST scan of the generated code with the NoNative predicate and dynamic operator counts); '
                            'Engine B shape obligations are not built in this revision'),
    'C06': dict(level='other', bounded=[('c06_lastwriter.py', 'last-writer oracle on executed programs + fixed-point check on every graph'),
                                        ('rt_worklist.py', 'worklist fixed-point contract on small graphs')],
                explanation='proved: the worklist fixed point of cfg.GraphVisitor (shared with C07); assumed with bounded stand-ins: '
                            'the reaching-definitions transfer function equations (checked at run time on every graph) and the '
                            'end-to-end last-writer soundness'),
    'C08': dict(level='other', bounded=[('c08_activity.py', 'symtable comparison per function + dynamic read/write log per executed statement')],
                explanation='bounded stand-in only in this revision (Scope algebra contracts not yet discharged)'),
    'C17': dict(level='other', bounded=[('c17_tree.py', 'tree-ness, ctx, compile, reparse identity, to_code text vs loaded module')],
                explanation='bounded stand-in (run-time contract on PyToPy.transform_ast output)'),
}
