"""C01 -- conversion preserves Python semantics under the default operators."""
import json
import os

from vlib.report import Report, Finding, ROOT
from vlib import prop as P
from vlib import hooks, witnesses

HELPER = os.path.join(ROOT, 'bounded', 'c01_diff.py')


def run(tier, seed):
  rep = Report('C01', tier, seed, 'exploration')
  # proved kernels: default operators are the native constructs (event mode); status/option lemmas
  P.vc_part(rep, 'C01', concrete_hooks=hooks.HOOKS)
  args = [str(seed), tier]
  rc, out, err = P.run_child(HELPER, args, timeout=3000)
  try:
    res = json.loads(out.strip().splitlines()[-1])
  except Exception:
    rep.error('c01_diff failed rc=%s: %s | %s' % (rc, out[-300:], err[-800:]))
    return rep.finish()
  cov = rep.coverage
  cov['evaluations'] = res['evaluated']
  cov['programs'] = res['programs']
  cov['distinct_nontrivial'] = res['distinct_nontrivial']
  cov['rule'] = ('bounded (NOT proved): all control skeletons with <= %d control nodes (%d programs) plus %d '
                 'seeded random programs, each run on adaptively explored decision vectors (<= 7 decisions, <= 40 '
                 'vectors); option sets rotate over %s; a program is non-trivial when a run produces > 3 tracer '
                 'events; distinct by source hash; known-finding triggers avoided by construction: %s'
                 % (res['K'], res['skeleton_programs'], res['random_programs'], res['options'], res['avoid']))
  cov['samples'] = cov.get('samples', []) + res['samples']
  cov['bounded_stand_in'] = dict(contract='Obs(to_graph(f)(*args)) == Obs(f(*args))', bound=cov['rule'])
  for i, f in enumerate(res['failures']):
    key = 'bounded:c01:%s:%s' % (f['kind'], _sig(f))
    rep.add_finding(Finding('C01', key, _describe(f), replay=f, concrete=True))
  witnesses.run(rep, 'C01')
  rep.assumptions.append('the all-programs clause is NOT proved: bounded stand-in over the stated program space')
  return rep.finish()


def _sig(f):
  if f['kind'] == 'observable-difference':
    o, c = f['original']['outcome'], f['converted']['outcome']
    return '%s-vs-%s' % (o[1] if o[0] == 'raise' else 'return', c[1] if c[0] == 'raise' else 'return')
  return f.get('what', '')[:60].replace(' ', '_')


def _describe(f):
  if f['kind'] == 'observable-difference':
    return 'converted function differs from the original on decisions %s (options %s): original %s, converted %s' % (
        f['decisions'], f['options'], f['original']['outcome'], f['converted']['outcome'])
  return '%s: %s' % (f['kind'], f.get('what'))
