from props import _generic, _table


def run(tier, seed):
  t = _table.TABLE['C09']
  return _generic.standard('C09', t['level'], tier, seed, bounded=t['bounded'], explanation=t['explanation'])
