#!/usr/bin/env python3
"""Engine soundness selftest: deliberate property-breaking edits applied to a scratch copy of /repo
(outside /repo and /verif, removed afterwards); each must fail a named obligation, and the unmodified
copy must verify.  usage: selftest/mutants.py [filter]"""
import os
import shutil
import subprocess
import sys
import tempfile

ROOT = os.path.dirname(os.path.dirname(os.path.abspath(__file__)))
PY = os.path.join(ROOT, '.venv', 'bin', 'python')

# (id, file, old text, new text, contracts expected to be refuted)
MUTANTS = [
    ('c20-as_tuple-drops-field', 'malt/core/converter.py',
     'self.internal_convert_user_code, self.optional_features)', 'self.optional_features)',
     ['malt.core.converter.ConversionOptions.as_tuple']),
    ('c20-call_options-always-converts', 'malt/core/converter.py',
     'internal_convert_user_code=self.recursive,', 'internal_convert_user_code=True,',
     ['malt.core.converter.ConversionOptions.call_options']),
    ('c20-uses-and', 'malt/core/converter.py',
     'return (Feature.ALL in self.optional_features or', 'return (Feature.ALL in self.optional_features and',
     ['malt.core.converter.ConversionOptions.uses']),
    ('c20-init-single-feature', 'malt/core/converter.py',
     'optional_features = (optional_features,)', 'optional_features = ()',
     ['malt.core.converter.ConversionOptions.__init__']),
    ('c20-embed-toplevel-widened', 'malt/converters/functions.py',
     '    if fn_scope.level == 2:\n      return self.ctx.user.options', '    if fn_scope.level <= 3:\n      return self.ctx.user.options',
     ['malt.converters.functions.FunctionTransformer.visit_FunctionDef']),
    ('c20-embed-nested-gets-requested-options', 'malt/converters/functions.py',
     '    return self.ctx.user.options.call_options()', '    return self.ctx.user.options',
     ['malt.converters.functions.FunctionTransformer.visit_FunctionDef', 'malt.converters.functions.FunctionTransformer.visit_Lambda']),
    ('c20-embed-lambda-standard-options', 'malt/converters/functions.py',
     '''          template,
          options=self._function_scope_options(fn_scope).to_ast(),''', '''          template,
          options=converter.STANDARD_OPTIONS.to_ast(),''',
     ['malt.converters.functions.FunctionTransformer.visit_Lambda']),
    ('c20-embed-harmless-guard-respelled', 'malt/converters/functions.py',
     '      if fn_scope.level <= 2:', '      if not fn_scope.level > 2:',
     ['ok:malt.converters.functions.FunctionTransformer.visit_FunctionDef']),
    ('c12-origin-offset-anchored-on-def', 'malt/pyct/origin_info.py',
     'self._lineno_offset = context_lineno - root_node.decorator_list[0].lineno',
     'self._lineno_offset = context_lineno - root_node.lineno',
     ['malt.pyct.origin_info.OriginResolver.__init__']),
    ('c12-absolute-lineno-off-by-one', 'malt/pyct/origin_info.py',
     '    return lineno + self._lineno_offset', '    return lineno + self._lineno_offset - 1',
     ['malt.pyct.origin_info.OriginResolver._absolute_lineno']),
    ('c12-origin-harmless-reordered-init', 'malt/pyct/origin_info.py',
     '''    self._source_lines = source_lines
    self._comments_map = comments_map
''', '''    self._comments_map = comments_map
    self._source_lines = source_lines
''', ['ok:malt.pyct.origin_info.OriginResolver.__init__']),
    ('c13-overload-by-name', 'malt/operators/py_builtins.py',
     '''  if f in SUPPORTED_BUILTINS:
    return BUILTIN_FUNCTIONS_MAP[f.__name__]
  return f''', '''  return BUILTIN_FUNCTIONS_MAP.get(getattr(f, '__name__', None), f)''',
     ['malt.operators.py_builtins.overload_of']),
    ('c08-copy-from-resets-declarations', 'malt/pyct/static_analysis/activity.py',
     '    self.bound = copy.copy(other.bound)\n', '    self.bound = copy.copy(other.bound)\n    self.globals = copy.copy(other.globals)\n',
     ['malt.pyct.static_analysis.activity.Scope.copy_from']),
    ('c08-copy-from-aliases-read', 'malt/pyct/static_analysis/activity.py',
     '    self.read = copy.copy(other.read)', '    self.read = other.read',
     ['malt.pyct.static_analysis.activity.Scope.copy_from']),
    ('c08-merge-from-forgets-bound', 'malt/pyct/static_analysis/activity.py',
     '    self.bound.update(other.bound)\n', '',
     ['malt.pyct.static_analysis.activity.Scope.merge_from']),
    ('c04-ifexp-branches-swapped', 'malt/converters/conditional_expressions.py',
     '        true_expr=node.body,\n        false_expr=node.orelse,', '        true_expr=node.orelse,\n        false_expr=node.body,',
     ['malt.converters.conditional_expressions.ConditionalExpressionTransformer.visit_IfExp']),
    ('c04-ifexp-template-eager-branch', 'malt/converters/conditional_expressions.py',
     '            lambda: true_expr,', '            true_expr,',
     ['malt.converters.conditional_expressions.ConditionalExpressionTransformer.visit_IfExp']),
    ('c04-assert-message-dropped', 'malt/converters/asserts.py',
     'return templates.replace(template, test=node.test, msg=node.msg)',
     "return templates.replace(template, test=node.test, msg=ast.Constant('Assertion error'))",
     ['malt.converters.asserts.AssertTransformer.visit_Assert']),
    ('c04-unary-overload-ignored', 'malt/converters/logical_expressions.py',
     '    return self._as_unary_function(overload, node.operand)', '    return node',
     ['malt.converters.logical_expressions.LogicalExpressionTransformer.visit_UnaryOp']),
    ('c04-binop-operands-swapped', 'malt/converters/logical_expressions.py',
     '    return self._as_binary_function(overload, left, right)', '    return self._as_binary_function(overload, right, left)',
     ['malt.converters.logical_expressions.LogicalExpressionTransformer._process_binop']),
    ('c04-call-print-always-native', 'malt/converters/call_trees.py',
     "    if (full_name == 'print' and\n        not self.ctx.user.options.uses(converter.Feature.BUILTIN_FUNCTIONS)):", "    if full_name == 'print':",
     ['malt.converters.call_trees.CallTreeTransformer.visit_Call']),
    ('c04-call-kwargs-dropped', 'malt/converters/call_trees.py',
     '        kwargs=self._kwargs_to_dict(node),', "        kwargs=parser.parse_expression('None'),",
     ['malt.converters.call_trees.CallTreeTransformer.visit_Call']),
    ('c04-call-harmless-local-renamed', 'malt/converters/call_trees.py',
     '''    new_call = templates.replace_as_expression(
        template,
        func=node.func,
        args=self._args_to_tuple(node),
        kwargs=self._kwargs_to_dict(node),
        function_ctx=function_context_name)

    return new_call''', '''    converted = templates.replace_as_expression(
        template,
        func=node.func,
        args=self._args_to_tuple(node),
        kwargs=self._kwargs_to_dict(node),
        function_ctx=function_context_name)

    return converted''',
     ['ok:malt.converters.call_trees.CallTreeTransformer.visit_Call']),
    ('c04-lists-pop-arity', 'malt/converters/lists.py',
     "      elif func_name == 'pop' and (len(node.args) <= 1):", "      elif func_name == 'pop' and (len(node.args) < 1):",
     ['malt.converters.lists.ListTransformer.visit_Call']),
    ('c04-lists-append-not-rebound', 'malt/converters/lists.py',
     '      target = ag__.list_append(target, element)', '      ag__.list_append(target, element)',
     ['malt.converters.lists.ListTransformer.visit_Call']),
    ('c04-lists-extend-treated-as-append', 'malt/converters/lists.py',
     "      if func_name == 'append' and (len(node.args) == 1):", "      if func_name in ('append', 'extend') and (len(node.args) == 1):",
     ['malt.converters.lists.ListTransformer.visit_Call']),
    ('c04-ld-on-stores-too', 'malt/converters/variables.py',
     '    if isinstance(node.ctx, ast.Load):\n', '    if True:\n',
     ['malt.converters.variables.VariableAccessTransformer.visit_Name']),
    ('c04-if-block-vars-from-body-only', 'malt/converters/control_flow.py',
     '        node, body_scope.bound | orelse_scope.bound)', '        node, body_scope.bound)',
     ['malt.converters.control_flow.ControlFlowTransformer.visit_If']),
    ('c04-if-reserved-from-body-only', 'malt/converters/control_flow.py',
     '    reserved = body_scope.referenced | orelse_scope.referenced\n    state_getter_name = self.ctx.namer.new_symbol(\'get_state\', reserved)\n    state_setter_name = self.ctx.namer.new_symbol(\'set_state\', reserved)\n    state_functions = self._create_state_functions(\n        cond_vars,',
     '    reserved = body_scope.referenced\n    state_getter_name = self.ctx.namer.new_symbol(\'get_state\', reserved)\n    state_setter_name = self.ctx.namer.new_symbol(\'set_state\', reserved)\n    state_functions = self._create_state_functions(\n        cond_vars,',
     ['malt.converters.control_flow.ControlFlowTransformer.visit_If']),
    ('c04-if-branches-swapped', 'malt/converters/control_flow.py',
     '        body=node.body,\n        body_name=self.ctx.namer.new_symbol(\'if_body\', reserved),\n        orelse=orelse_body,',
     '        body=orelse_body,\n        body_name=self.ctx.namer.new_symbol(\'if_body\', reserved),\n        orelse=node.body,',
     ['malt.converters.control_flow.ControlFlowTransformer.visit_If']),
    ('c04-if-empty-else-not-padded', 'malt/converters/control_flow.py',
     '    if not orelse_body:\n      orelse_body = [ast.Pass()]\n\n    template = """\n      state_functions\n      def body_name():\n        nonlocal_declarations\n        body\n      def orelse_name():',
     '    template = """\n      state_functions\n      def body_name():\n        nonlocal_declarations\n        body\n      def orelse_name():',
     ['malt.converters.control_flow.ControlFlowTransformer.visit_If']),
    ('c04-for-target-names-not-loop-vars', 'malt/converters/control_flow.py',
     '        node, body_scope.bound | iter_scope.bound)', '        node, body_scope.bound)',
     ['malt.converters.control_flow.ControlFlowTransformer.visit_For']),
    ('c04-for-extra-test-ignored', 'malt/converters/control_flow.py',
     '    if anno.hasanno(node, anno.Basic.EXTRA_LOOP_TEST):', '    if False:',
     ['malt.converters.control_flow.ControlFlowTransformer.visit_For']),
    ('c04-while-test-evaluated-once', 'malt/converters/control_flow.py',
     '      def test_name():\n        return test\n', '      test_value = test\n      def test_name():\n        return test_value\n',
     ['malt.converters.control_flow.ControlFlowTransformer.visit_While']),
    ('c04-while-reserved-empty', 'malt/converters/control_flow.py',
     "        test_name=self.ctx.namer.new_symbol('loop_test', reserved),", "        test_name=self.ctx.namer.new_symbol('loop_test', set()),",
     ['malt.converters.control_flow.ControlFlowTransformer.visit_While']),
    ('c03-break-else-not-guarded', 'malt/converters/break_statements.py',
     '    guarded_orelse = self._guard_if_present(node.orelse, break_var)\n\n    template = """\n      var_name = False\n      while not var_name and test:',
     '    guarded_orelse = node.orelse\n\n    template = """\n      var_name = False\n      while not var_name and test:',
     ['malt.converters.break_statements.BreakTransformer.visit_While']),
    ('c03-break-while-test-not-guarded', 'malt/converters/break_statements.py',
     '      while not var_name and test:', '      while test:',
     ['malt.converters.break_statements.BreakTransformer.visit_While']),
    ('c03-break-guard-inverted', 'malt/converters/break_statements.py',
     '        if not var_name:\n          block', '        if var_name:\n          block',
     ['malt.converters.break_statements.BreakTransformer._guard_if_present']),
    ('c03-break-for-no-extra-test', 'malt/converters/break_statements.py',
     '    anno.setanno(new_for_node, anno.Basic.EXTRA_LOOP_TEST, extra_test)\n', '',
     ['malt.converters.break_statements.BreakTransformer.visit_For']),
    ('c03-break-else-visited-inside-break-scope', 'malt/converters/break_statements.py',
     '    nodes = self.visit_block(nodes)\n    break_used = self.state[_Break].used\n    self.state[_Break].exit()',
     '    nodes = self.visit_block(nodes)\n    self.state[_Break].exit()\n    break_used = self.state[_Break].used',
     ['malt.converters.break_statements.BreakTransformer._process_body']),
    ('c03-continue-else-in-loop-scope', 'malt/converters/continue_statements.py',
     '''    node.test = self.visit(node.test)
    node.body = self._visit_loop_body(node, node.body)
    # A continue in the else clause applies to the containing scope.
    node.orelse = self._visit_non_loop_body(node.orelse)''', '''    node.test = self.visit(node.test)
    node.body = self._visit_loop_body(node, node.body)
    # A continue in the else clause applies to the containing scope.
    node.orelse = self._visit_loop_body(node, node.orelse)''',
     ['malt.converters.continue_statements.ContinueCanonicalizationTransformer.visit_While']),
    ('c03-continue-guard-flags-not-advanced', 'malt/converters/continue_statements.py',
     '      block.create_guard_current = block.create_guard_next\n', '',
     ['malt.converters.continue_statements.ContinueCanonicalizationTransformer._postprocess_statement']),
    ('c03-continue-var-initialised-always', 'malt/converters/continue_statements.py',
     '    if self.state[_Continue].used:\n      template = """\n        var_name = False', '    if True:\n      template = """\n        var_name = False',
     ['malt.converters.continue_statements.ContinueCanonicalizationTransformer._visit_loop_body']),
    ('c03-continue-finally-not-visited', 'malt/converters/continue_statements.py',
     '    node.finalbody = self._visit_non_loop_body(node.finalbody)\n', '',
     ['malt.converters.continue_statements.ContinueCanonicalizationTransformer.visit_Try']),
    ('c10-transformed-node-not-renamed', 'malt/pyct/transpiler.py',
     '          nodes.name = ctx.info.name\n', '          pass\n',
     ['malt.pyct.transpiler.PyToPy.transform_function']),
    ('c20-function-context-name-not-recorded', 'malt/converters/functions.py',
     '''      function_context_name = self.ctx.namer.new_symbol('fscope',
                                                        scope.referenced)
      fn_scope.context_name = function_context_name''', '''      function_context_name = self.ctx.namer.new_symbol('fscope',
                                                        scope.referenced)''',
     ['malt.converters.functions.FunctionTransformer.visit_FunctionDef']),
    ('c03-return-while-test-not-guarded', 'malt/converters/return_statements.py',
     "          'not control_var and test',", "          'test',",
     ['malt.converters.return_statements.ReturnStatementsTransformer.visit_While']),
    ('c03-return-for-existing-extra-test-dropped', 'malt/converters/return_statements.py',
     "            'not control_var and extra_test',", "            'not control_var',",
     ['malt.converters.return_statements.ReturnStatementsTransformer.visit_For']),
    ('c03-return-guard-flags-not-advanced', 'malt/converters/return_statements.py',
     '    state.create_guard_now = state.create_guard_next\n', '',
     ['malt.converters.return_statements.ReturnStatementsTransformer._postprocess_statement']),
    ('c16-exit-guard-swapped', 'malt/operators/function_wrappers.py',
     '''  def __exit__(self, exc_type, exc_val, exc_tb):
    if self.options.user_requested:''', '''  def __exit__(self, exc_type, exc_val, exc_tb):
    if not self.options.user_requested:''',
     ['malt.operators.function_wrappers.FunctionScope.__exit__']),
    ('c16-exit-no-pop', 'malt/core/ag_ctx.py', '    _control_ctx().pop()', '    pass',
     ['malt.core.ag_ctx.ControlStatusCtx.__exit__']),
    ('c16-do-not-convert-enabled', 'malt/impl/api.py',
     'with ag_ctx.ControlStatusCtx(status=ag_ctx.Status.DISABLED):',
     'with ag_ctx.ControlStatusCtx(status=ag_ctx.Status.ENABLED):',
     ['malt.impl.api.do_not_convert.<locals>.wrapper']),
    ('c16-enter-prepends', 'malt/core/ag_ctx.py', '    _control_ctx().append(self)',
     '    _control_ctx().insert(0, self)', ['malt.core.ag_ctx.ControlStatusCtx.__enter__']),
    ('c16-scope-enabled-ctx-unspecified', 'malt/operators/function_wrappers.py',
     'ag_ctx.ControlStatusCtx(ag_ctx.Status.ENABLED,', 'ag_ctx.ControlStatusCtx(ag_ctx.Status.UNSPECIFIED,',
     ['malt.operators.function_wrappers.FunctionScope.__init__']),
    ('df-worklist-drops-revisit', 'malt/pyct/cfg.py', 'if should_revisit or next_ not in closed:',
     'if next_ not in closed:', ['malt.pyct.cfg.GraphVisitor._visit_internal']),
    ('df-worklist-wrong-direction', 'malt/pyct/cfg.py', '''      if mode == _WalkMode.FORWARD:
        children = node.next''', '''      if mode == _WalkMode.FORWARD:
        children = node.prev''', ['malt.pyct.cfg.GraphVisitor._visit_internal']),
    ('df-worklist-reverse-starts-at-entry', 'malt/pyct/cfg.py', 'open_ = list(self.graph.exit)',
     'open_ = [self.graph.entry]', ['malt.pyct.cfg.GraphVisitor._visit_internal']),
    ('c07-liveness-precedence', 'malt/pyct/static_analysis/liveness.py',
     'live_in = gen | (live_out - kill)', 'live_in = gen | live_out - kill',
     []),  # same parse: documents that this edit is harmless (| binds looser than -)
    ('c07-liveness-kill-first', 'malt/pyct/static_analysis/liveness.py',
     'live_in = gen | (live_out - kill)', 'live_in = (gen | live_out) - kill',
     ['malt.pyct.static_analysis.liveness.Analyzer.visit_node']),
    ('c07-liveness-no-closure', 'malt/pyct/static_analysis/liveness.py',
     'live_in |= (fn_scope.read - (fn_scope.bound - fn_scope.nonlocals))', 'live_in |= (fn_scope.read - fn_scope.read)',
     ['malt.pyct.static_analysis.liveness.Analyzer.visit_node']),
    ('c07-liveness-closure-drops-nonlocals', 'malt/pyct/static_analysis/liveness.py',
     'live_in |= (fn_scope.read - (fn_scope.bound - fn_scope.nonlocals))', 'live_in |= (fn_scope.read - fn_scope.bound)',
     ['malt.pyct.static_analysis.liveness.Analyzer.visit_node']),
    ('c07-liveness-kill-only-modified', 'malt/pyct/static_analysis/liveness.py',
     'kill = node_scope.modified | node_scope.deleted', 'kill = node_scope.modified | node_scope.read',
     ['malt.pyct.static_analysis.liveness.Analyzer.visit_node']),
    ('c07-liveness-revisit-on-out', 'malt/pyct/static_analysis/liveness.py',
     'return prev_live_in != live_in', 'return False',
     ['malt.pyct.static_analysis.liveness.Analyzer.visit_node']),
    ('c07-liveness-succ-uses-out', 'malt/pyct/static_analysis/liveness.py',
     '''      live_out = set()
      for n in node.next:
        live_out |= self.in_[n]
      live_in = gen | (live_out - kill)''', '''      live_out = set()
      for n in node.next:
        live_out |= self.out[n]
      live_in = gen | (live_out - kill)''',
     ['malt.pyct.static_analysis.liveness.Analyzer.visit_node']),
    ('c02-input-only-ignores-live-out', 'malt/converters/control_flow.py',
     'input_only = basic_scope_vars & live_in - live_out', 'input_only = basic_scope_vars & live_in',
     ['malt.converters.control_flow.ControlFlowTransformer._get_block_vars']),
    ('c02-basic-drops-nonlocals', 'malt/converters/control_flow.py',
     'if s in live_in or s in live_out or s in nonlocals:', 'if s in live_in or s in live_out:',
     ['malt.converters.control_flow.ControlFlowTransformer._get_block_basic_vars']),
    ('c02-nouts-all', 'malt/converters/control_flow.py',
     'nouts = len(scope_vars) - len(input_only)', 'nouts = len(scope_vars)',
     ['malt.converters.control_flow.ControlFlowTransformer._get_block_vars']),
    ('c02-composite-any-support', 'malt/converters/control_flow.py',
     'if not all(sss in live_in for sss in support_set_symbols):', 'if not any(sss in live_in for sss in support_set_symbols):',
     ['malt.converters.control_flow.ControlFlowTransformer._get_block_composite_vars']),
    ('c02-undefined-ignores-defined-in', 'malt/converters/control_flow.py',
     'modified - defined_in - fn_scope.globals - fn_scope.nonlocals)', 'modified - fn_scope.globals - fn_scope.nonlocals)',
     ['malt.converters.control_flow.ControlFlowTransformer._get_block_vars']),
    ('c02-outputs-last', 'malt/converters/control_flow.py',
     'key=lambda v: (v in input_only, v))', 'key=lambda v: (v not in input_only, v))',
     ['malt.converters.control_flow.ControlFlowTransformer._get_block_vars']),
    ('c11-namer-forgets-generated', 'malt/pyct/naming.py',
     'new_name in all_reserved_locals or new_name in self.generated_names):', 'new_name in all_reserved_locals):',
     ['malt.pyct.naming.Namer.new_symbol']),
    ('c11-namer-qn-not-flattened', 'malt/pyct/naming.py', 'all_reserved_locals.update(s.qn)',
     'all_reserved_locals.add(s)', ['malt.pyct.naming.Namer.new_symbol']),
    ('c11-namer-ignores-namespace', 'malt/pyct/naming.py', 'while (new_name in self.global_namespace or',
     'while (False or', ['malt.pyct.naming.Namer.new_symbol']),
    ('c11-namer-does-not-record', 'malt/pyct/naming.py', '    self.generated_names.add(new_name)', '    pass',
     ['malt.pyct.naming.Namer.new_symbol']),
    ('c01-and-eager', 'malt/operators/logical.py', '''  a_val = a()
  ### Implement your own operator here. ###
  return _py_lazy_and(a_val, b)''', '''  a_val = a()
  b_val = b()
  return _py_lazy_and(a_val, lambda: b_val)''', ['malt.operators.logical.and_']),
    ('c01-for-extra-test-before-body', 'malt/operators/control_flow.py', '''      for target in iter_:
        body(target)
        if not guarded_extra_test():
          break''', '''      for target in iter_:
        if not guarded_extra_test():
          break
        body(target)''', ['malt.operators.control_flow._py_for_stmt', 'malt.operators.control_flow.for_stmt']),
    ('c01-while-tests-twice', 'malt/operators/control_flow.py', '''  while guarded_test():
    body()''', '''  while guarded_test() and guarded_test():
    body()''', ['malt.operators.control_flow._py_while_stmt', 'malt.operators.control_flow.while_stmt']),
    ('c01-if-branches-swapped', 'malt/operators/control_flow.py', 'return body() if cond else orelse()',
     'return orelse() if cond else body()', ['malt.operators.control_flow._py_if_stmt', 'malt.operators.control_flow.if_stmt']),
    ('c01-ld-passes-undefined', 'malt/operators/variables.py', '''  if isinstance(v, Undefined):
    return v.read()
  return v''', '''  return v''', ['malt.operators.variables.ld']),
    ('c01-ret-keeps-undefined-return', 'malt/operators/function_wrappers.py', '''    if isinstance(value, variables.UndefinedReturnValue):
      return None''', '''    if isinstance(value, variables.Undefined):
      return None''', ['malt.operators.function_wrappers.FunctionScope.ret']),
    ('c01-ldu-swallows-everything', 'malt/operators/variables.py', 'except (KeyError, AttributeError, NameError):',
     'except Exception:', ['malt.operators.variables.ldu']),
    ('c01-not-eq-is-eq', 'malt/operators/logical.py', '  return not_(eq(a, b))', '  return eq(a, b)',
     ['malt.operators.logical.not_eq']),
    ('c09-erase-kwdefaults-including-none', 'malt/pyct/transpiler.py', '''    for i, d in enumerate(args.kw_defaults):
      if d is not None:
        args.kw_defaults[i] = parser.parse_expression('None')''', '''    for i, d in enumerate(args.kw_defaults):
      args.kw_defaults[i] = parser.parse_expression('None')''', ['malt.pyct.transpiler.GenericTranspiler._erase_arg_defaults']),
    ('c09-erase-skips-last-default', 'malt/pyct/transpiler.py', 'for i in range(len(args.defaults)):',
     'for i in range(len(args.defaults) - 1):', ['malt.pyct.transpiler.GenericTranspiler._erase_arg_defaults']),
    ('c14-sorted-drops-reverse', 'malt/operators/py_builtins.py', 'return sorted(iterable, key=key, reverse=reverse)',
     'return sorted(iterable, key=key)', ['malt.operators.py_builtins.sorted_']),
    ('c14-range-ignores-step', 'malt/operators/py_builtins.py', 'return range(start_or_stop, stop, step)',
     'return range(start_or_stop, stop)', ['malt.operators.py_builtins.range_']),
    ('c14-int-ignores-base', 'malt/operators/py_builtins.py', 'return int(x, base)', 'return int(x)',
     ['malt.operators.py_builtins.int_']),
    ('c12-keyerror-plain', 'malt/pyct/error_utils.py', 'to_ret = MultilineMessageKeyError(self.get_message(), self.cause_message)',
     'to_ret = KeyError(self.get_message())', ['malt.pyct.error_utils.ErrorMetadataBase.create_exception']),
    ('c12-staging-for-everything', 'malt/impl/api.py', '''    exc = super(_ErrorMetadata, self).create_exception(source_error)
    if exc is not None:
      return exc
''', '''    exc = None
''', ['malt.impl.api._ErrorMetadata.create_exception']),
    ('c13-partial-drops-keywords', 'malt/impl/api.py', '      new_kwargs = f.keywords.copy()', '      new_kwargs = {}',
     ['malt.impl.api.converted_call']),
    ('c13-allowlist-ignores-user-requested', 'malt/impl/api.py', 'if not options.user_requested and conversion.is_allowlisted(f):',
     'if conversion.is_allowlisted(f):', ['malt.impl.api.converted_call']),
    ('c13-unconverted-calls-twice', 'malt/impl/api.py', '''  if kwargs is not None:
    return f(*args, **kwargs)
  return f(*args)''', '''  if kwargs is not None:
    f(*args, **kwargs)
    return f(*args, **kwargs)
  return f(*args)''', ['malt.impl.api._call_unconverted', 'malt.impl.api.converted_call']),
    ('c13-rule-prefix-without-dot', 'malt/core/config_lib.py', "module_name.startswith(self._prefix + '.')",
     'module_name.startswith(self._prefix)', ['malt.core.config_lib.Rule.matches']),
    ('c10-code-cache-keys-by-function', 'malt/pyct/cache.py', '''    if hasattr(entity, '__code__'):
      return entity.__code__
    else:
      return entity''', '''    return entity''', ['malt.pyct.cache.CodeObjectCache._get_key']),
    ('c04-return-lowering-before-continue', 'malt/impl/api.py', '''    node = continue_statements.transform(node, ctx)
    node = return_statements.transform(node, ctx)''', '''    node = return_statements.transform(node, ctx)
    node = continue_statements.transform(node, ctx)''', ['malt.impl.api.PyToPy.transform_ast']),
    ('c04-lists-ungated', 'malt/impl/api.py', '''    if ctx.user.options.uses(converter.Feature.LISTS):
      node = lists.transform(node, ctx)
      node = slices.transform(node, ctx)''', '''    node = lists.transform(node, ctx)
    node = slices.transform(node, ctx)''', ['malt.impl.api.PyToPy.transform_ast']),
    ('c04-no-logical-expressions-pass', 'malt/impl/api.py', '    node = logical_expressions.transform(node, ctx)\n', '',
     ['malt.impl.api.PyToPy.transform_ast']),
    ('c04-analysis-skips-reaching-defs', 'malt/impl/api.py',
     '    node = reaching_definitions.resolve(node, ctx, graphs)\n    anno.dup(', '    anno.dup(',
     ['malt.impl.api.PyToPy.transform_ast']),
    ('c17-to_code-drops-features', 'malt/impl/api.py', '''          recursive=recursive,
          experimental_optional_features=experimental_optional_features))
  return textwrap.dedent(source)''', '''          recursive=recursive,
          experimental_optional_features=None))
  return textwrap.dedent(source)''', ['malt.impl.api.to_code']),
    ('c15-posonly-ignored-again', 'malt/pyct/parser.py', 'for arg in node.args.posonlyargs + node.args.args)',
     'for arg in node.args.args)', ['malt.pyct.parser._node_matches_argspec']),
    ('c15-kwonly-not-compared', 'malt/pyct/parser.py', '''  if node_kwonlyargs != tuple(arg_spec.kwonlyargs):
    return False
''', '', ['malt.pyct.parser._node_matches_argspec']),
    ('c15-varkw-compared-with-vararg', 'malt/pyct/parser.py', 'if arg_spec.varkw != _arg_name(node.args.kwarg):',
     'if arg_spec.varkw != _arg_name(node.args.vararg):', ['malt.pyct.parser._node_matches_argspec']),
    ('c18-gensym-does-not-advance', 'malt/pyct/common_transformers/anf.py', '    self._idx += 1\n', '    self._idx += 0\n',
     ['malt.pyct.common_transformers.anf.DummyGensym.new_name']),
    ('c18-pending-prepended', 'malt/pyct/common_transformers/anf.py', '    self._pending_statements.append(stmt)',
     '    self._pending_statements.insert(0, stmt)', ['malt.pyct.common_transformers.anf.AnfTransformer._add_pending_statement']),
    ('c18-consume-does-not-reset', 'malt/pyct/common_transformers/anf.py', '''    ans = self._pending_statements
    self._pending_statements = []''', '''    ans = list(self._pending_statements)''',
     ['malt.pyct.common_transformers.anf.AnfTransformer._consume_pending_statements']),
    ('c08-isolated-exports-all-reads', 'malt/pyct/static_analysis/activity.py',
     '        self.parent.read.update(self.read - (self.bound - self.nonlocals))', '        self.parent.read.update(self.read)',
     ['malt.pyct.static_analysis.activity.Scope.finalize']),
    ('c08-block-forgets-modified', 'malt/pyct/static_analysis/activity.py',
     '        self.parent.modified.update(self.modified - self.isolated_names)\n', '',
     ['malt.pyct.static_analysis.activity.Scope.finalize']),
    ('c08-isolated-leaks-bound', 'malt/pyct/static_analysis/activity.py', '''      else:
        # TODO(mdan): This is not accurate.''', '''      else:
        self.parent.bound.update(self.bound)
        # TODO(mdan): This is not accurate.''', ['malt.pyct.static_analysis.activity.Scope.finalize']),
    ('c11-referenced-drops-bound', 'malt/pyct/static_analysis/activity.py',
     'return self.read | self.bound | self.parent.referenced', 'return self.read | self.parent.referenced',
     ['malt.pyct.static_analysis.activity.Scope.referenced']),
    ('c08-nested-nonlocal-read-not-exported', 'malt/pyct/static_analysis/activity.py',
     '        self.parent.read.update(self.read - (self.bound - self.nonlocals))', '        self.parent.read.update(self.read - self.bound)',
     ['malt.pyct.static_analysis.activity.Scope.finalize']),
    ('c08-free-vars-includes-bound', 'malt/pyct/static_analysis/activity.py',
     'return enclosing_scope.read - enclosing_scope.bound', 'return enclosing_scope.read',
     ['malt.pyct.static_analysis.activity.Scope.free_vars']),
    ('c08-del-not-recorded-as-deleted', 'malt/pyct/static_analysis/activity.py', '      self.scope.deleted.add(qn)\n', '',
     ['malt.pyct.static_analysis.activity.ActivityAnalyzer._track_symbol']),
    ('c08-augassign-not-a-read', 'malt/pyct/static_analysis/activity.py', '''      if self._in_aug_assign:
        self.scope.read.add(qn)''', '''      if self._in_aug_assign:
        pass''', ['malt.pyct.static_analysis.activity.ActivityAnalyzer._track_symbol']),
    ('c08-store-not-bound', 'malt/pyct/static_analysis/activity.py', '''      self.scope.modified.add(qn)
      self.scope.bound.add(qn)''', '''      self.scope.modified.add(qn)''',
     ['malt.pyct.static_analysis.activity.ActivityAnalyzer._track_symbol']),
    ('c08-exit-scope-skips-finalize', 'malt/pyct/static_analysis/activity.py', '    exited_scope.finalize()\n', '',
     ['malt.pyct.static_analysis.activity.ActivityAnalyzer._exit_scope']),
    ('c08-enter-scope-always-isolated', 'malt/pyct/static_analysis/activity.py',
     'self.scope = Scope(self.scope, isolated=isolated, function_name=f_name)',
     'self.scope = Scope(self.scope, isolated=True, function_name=f_name)',
     ['malt.pyct.static_analysis.activity.ActivityAnalyzer._enter_scope']),
    ('c05-connect-forgets-prev', 'malt/pyct/cfg.py', '      second.prev.add(first)\n', '',
     ['malt.pyct.cfg.GraphBuilder._connect_nodes#node']),
    ('c05-new-node-edges-reversed', 'malt/pyct/cfg.py', '''    for leaf in self.leaves:
      self._connect_nodes(leaf, node)''', '''    for leaf in self.leaves:
      self._connect_nodes(node, leaf)''', ['malt.pyct.cfg.GraphBuilder._add_new_node']),
    ('c05-new-node-skips-leaves', 'malt/pyct/cfg.py', '''    for leaf in self.leaves:
      self._connect_nodes(leaf, node)''', '''    for leaf in self.leaves:
      break''', ['malt.pyct.cfg.GraphBuilder._add_new_node']),
    ('c05-freeze-drops-prev', 'malt/pyct/cfg.py', '    self.prev = weakref.WeakSet(self.prev)', '    self.prev = weakref.WeakSet()',
     ['malt.pyct.cfg.Node.freeze']),
    ('c05-ordinary-node-keeps-old-leaves', 'malt/pyct/cfg.py', '''    node = self._add_new_node(ast_node)
    self.leaves = set((node,))''', '''    node = self._add_new_node(ast_node)
    self.leaves = self.leaves | set((node,))''', ['malt.pyct.cfg.GraphBuilder.add_ordinary_node']),
    ('c05-jump-node-cuts-edges-directly', 'malt/pyct/cfg.py', '''    node = self._add_new_node(ast_node)
    self.leaves = set()''', '''    node = self._add_new_node(ast_node)
    for leaf in self.leaves:
      leaf.next.discard(node)
    self.leaves = set()''', ['scan:C05']),
    ('c06-kill-not-subtracted', 'malt/pyct/static_analysis/reaching_definitions.py', '''      gen = self.gen_map[node]
      defs_out = gen | (defs_in - kill)

    else:''', '''      gen = self.gen_map[node]
      defs_out = gen | defs_in

    else:''', ['malt.pyct.static_analysis.reaching_definitions.Analyzer.visit_node']),
    ('c06-kill-ignores-deleted', 'malt/pyct/static_analysis/reaching_definitions.py',
     'kill = node_scope.modified | node_scope.deleted', 'kill = node_scope.modified',
     ['malt.pyct.static_analysis.reaching_definitions.Analyzer.visit_node']),
    ('c06-joins-successors', 'malt/pyct/static_analysis/reaching_definitions.py', '''    for n in node.prev:
      defs_in |= self.out[n]''', '''    for n in node.next:
      defs_in |= self.out[n]''', ['malt.pyct.static_analysis.reaching_definitions.Analyzer.visit_node']),
    ('c06-never-revisits', 'malt/pyct/static_analysis/reaching_definitions.py', '    return prev_defs_out != defs_out',
     '    return False', ['malt.pyct.static_analysis.reaching_definitions.Analyzer.visit_node']),
    ('c06-gen-recreated-every-visit', 'malt/pyct/static_analysis/reaching_definitions.py', '      if node not in self.gen_map:',
     '      if True:', ['malt.pyct.static_analysis.reaching_definitions.Analyzer.visit_node']),
    ('c06-params-get-no-definition', 'malt/pyct/static_analysis/reaching_definitions.py', '''          def_.param_of = weakref.ref(p)
          node_symbols[s] = def_''', '''          def_.param_of = weakref.ref(p)''',
     ['malt.pyct.static_analysis.reaching_definitions.Analyzer.visit_node']),
    ('c06-state-mutated-in-place', 'malt/pyct/static_analysis/reaching_definitions.py', '''    self.in_[node] = defs_in
    self.out[node] = defs_out
''', '''    self.in_[node] = defs_in
    self.out[node] = defs_out
    defs_in.value.pop(None, None)
''', ['scan:C06']),
    ('c10-no-second-check-under-lock', 'malt/pyct/transpiler.py', '''        # Check again under lock.
        if self._cache.has(fn, cache_subkey):''', '''        # Check again under lock.
        if False:''', ['malt.pyct.transpiler.PyToPy.transform_function']),
    ('c10-published-before-create', 'malt/pyct/transpiler.py', '''          factory.create(
              nodes, ctx.namer, future_features=ctx.info.future_features)
          self._cache[fn][cache_subkey] = factory''', '''          self._cache[fn][cache_subkey] = factory
          factory.create(
              nodes, ctx.namer, future_features=ctx.info.future_features)''', ['malt.pyct.transpiler.PyToPy.transform_function']),
    ('c10-transform-outside-lock', 'malt/pyct/transpiler.py', '''    else:
      with self._cache_lock:
        # Check again under lock.''', '''    else:
      if True:
        # Check again under lock.''', ['malt.pyct.transpiler.PyToPy.transform_function']),
    ('c09-instantiate-without-kwdefaults', 'malt/pyct/transpiler.py', "        kwdefaults=getattr(fn, '__kwdefaults__', None))",
     "        kwdefaults=None)", ['malt.pyct.transpiler.PyToPy.transform_function']),
    ('c10-cache-keyed-without-options', 'malt/pyct/transpiler.py', '          self._cache[fn][cache_subkey] = factory',
     '          self._cache[fn][None] = factory', ['malt.pyct.transpiler.PyToPy.transform_function']),
    ('c19-closure-types-replaced', 'malt/pyct/static_analysis/type_inference.py', '        existing_types[k].update(v)',
     '        existing_types[k] = set(v)', ['malt.pyct.static_analysis.type_inference.Analyzer._update_closure_types']),
    ('c19-closure-types-new-key-empty', 'malt/pyct/static_analysis/type_inference.py', '''      else:
        existing_types[k] = set(v)''', '''      else:
        existing_types[k] = set()''', ['malt.pyct.static_analysis.type_inference.Analyzer._update_closure_types']),
    ('c03-guard-on-simple-instead-of-composite', 'malt/converters/control_flow.py', '''    for v in block_vars:
      if v.is_simple():
        guarded_block_vars.append(v)''', '''    for v in block_vars:
      if not v.is_simple():
        guarded_block_vars.append(v)''', ['malt.converters.control_flow.ControlFlowTransformer._create_state_functions']),
    ('c03-composites-moved-to-front', 'malt/converters/control_flow.py', '''      else:
        guarded_block_vars.append(
            templates.replace_as_expression(''', '''      else:
        guarded_block_vars.insert(0,
            templates.replace_as_expression(''', ['malt.converters.control_flow.ControlFlowTransformer._create_state_functions']),
    ('c03-guard-names-wrong-variable', 'malt/converters/control_flow.py', '                name=ast.Constant(str(v))))',
     '                name=ast.Constant(str(block_vars[0]))))', ['malt.converters.control_flow.ControlFlowTransformer._create_state_functions']),
    ('c07-fndefs-def-not-added', 'malt/pyct/static_analysis/reaching_fndefs.py', '      defs_out += node.ast_node', '      pass',
     ['malt.pyct.static_analysis.reaching_fndefs.Analyzer.visit_node']),
    ('c07-fndefs-joins-only-first-pred', 'malt/pyct/static_analysis/reaching_fndefs.py', '''    for n in node.prev:
      defs_in |= self.out[n]''', '''    for n in node.prev:
      defs_in |= self.out[n]
      break''', ['malt.pyct.static_analysis.reaching_fndefs.Analyzer.visit_node']),
    ('c07-fndefs-external-defs-dropped', 'malt/pyct/static_analysis/reaching_fndefs.py', '      defs_in = _NodeState(self.external_defs)',
     '      defs_in = _NodeState()', ['malt.pyct.static_analysis.reaching_fndefs.Analyzer.visit_node']),
    ('c07-fndefs-or-is-intersection', 'malt/pyct/static_analysis/reaching_fndefs.py', '    result.value.update(other.value)',
     '    result.value.intersection_update(other.value)', ['malt.pyct.static_analysis.reaching_fndefs._NodeState.__or__']),
    ('c07-fndefs-least-fixpoint-variant-is-harmless', 'malt/pyct/static_analysis/reaching_fndefs.py', '''    else:
      defs_in = prev_defs_out
''', '''    else:
      defs_in = _NodeState()
''', ['ok:malt.pyct.static_analysis.reaching_fndefs.Analyzer.visit_node']),
    ('c19-typemap-copy-shares-sets', 'malt/pyct/static_analysis/type_inference.py',
     '          s: set(other_types) for s, other_types in init_from.types.items()',
     '          s: other_types for s, other_types in init_from.types.items()',
     ['malt.pyct.static_analysis.type_inference._TypeMap.__init__']),
    ('c19-typemap-join-forgets-other', 'malt/pyct/static_analysis/type_inference.py', '      self_types.update(other_types)\n    return result',
     '      pass\n    return result', ['malt.pyct.static_analysis.type_inference._TypeMap.__or__']),
    ('c19-typemap-join-skips-new-keys', 'malt/pyct/static_analysis/type_inference.py', '''      if s not in result.types:
        self_types = set()
        result.types[s] = self_types''', '''      if s not in result.types:
        continue''', ['malt.pyct.static_analysis.type_inference._TypeMap.__or__']),
    ('c09-closure-matched-by-position', 'malt/pyct/transpiler.py', '    closure_map = dict(zip(self._freevars, closure))',
     '    closure_map = dict(zip(factory_freevars, closure))', ['malt.pyct.transpiler._PythonFnFactory.instantiate']),
    ('c09-defaults-only-when-truthy', 'malt/pyct/transpiler.py', '    new_fn.__defaults__ = defaults\n',
     '    if defaults:\n      new_fn.__defaults__ = defaults\n', ['malt.pyct.transpiler._PythonFnFactory.instantiate']),
    ('c09-kwdefaults-dropped', 'malt/pyct/transpiler.py', '    new_fn.__kwdefaults__ = kwdefaults\n', '',
     ['malt.pyct.transpiler._PythonFnFactory.instantiate']),
    ('c09-globals-copied', 'malt/pyct/transpiler.py', '        globals=globals_,', '        globals=dict(globals_),',
     ['malt.pyct.transpiler._PythonFnFactory.instantiate']),
    ('c11-namer-not-seeded-with-namespace', 'malt/pyct/transpiler.py', '    namer = naming.Namer(namespace)',
     '    namer = naming.Namer({})', ['malt.pyct.transpiler.GenericTranspiler.transform_function']),
    ('c12-origin-info-after-erasing-defaults', 'malt/pyct/transpiler.py', '''    origin_info.resolve_entity(node, source, fn)

    namespace = inspect_utils.getnamespace(fn)''', '''    node = self._erase_arg_defaults(node)
    origin_info.resolve_entity(node, source, fn)

    namespace = inspect_utils.getnamespace(fn)''', ['malt.pyct.transpiler.GenericTranspiler.transform_function']),
    ('c09-defaults-not-erased', 'malt/pyct/transpiler.py', '    node = self._erase_arg_defaults(node)\n    result = self.transform_ast(node, context)',
     '    result = self.transform_ast(node, context)', ['malt.pyct.transpiler.GenericTranspiler.transform_function']),
    ('c10-cache-key-normalised-options', 'malt/impl/api.py', '''  def get_caching_key(self, ctx):
    return ctx.options''', '''  def get_caching_key(self, ctx):
    return ctx.options.call_options()''', ['malt.impl.api.PyToPy.get_caching_key']),
    ('c10-has-ignores-subkey', 'malt/pyct/cache.py', '    return subkey in parent', '    return True',
     ['malt.pyct.cache._TransformedFnCache.has']),
]

DRIVER = r'''
import sys, json
sys.path.insert(0, %r)
from contracts import build_world
from pvc.verify import verify_contract
w = build_world()
from vlib import hooks
out = {}
for n in sys.argv[1:]:
    if n.startswith('scan:'):
        import importlib
        from vlib.report import Report
        rep = Report(n[5:], 'quick', 0, 'other')
        importlib.import_module('props.' + n[5:]).frame_scan(rep, 'quick')
        out[n] = ['refuted' if rep.findings else 'proved', '', [f.key for f in rep.findings][:4]]
        continue
    r = verify_contract(w, w.contracts[n], 30000)
    st = r.status
    via = []
    if st == 'undecided' and (any(o.status == 'unknown' for o in r.obligations) or not r.obligations):
        if hooks.run_hook(n) is not None:
            st = 'refuted'      # unknown + concrete failing input on the real code
            via = ['<replay hook; engine: ' + (r.message[:80] or 'solver unknown') + '>']
    out[n] = [st, r.message[:200], [o.name for o in r.obligations if o.status != 'proved'][:4] + (via if st == 'refuted' else [])]
print(json.dumps(out))
''' % ROOT


def run_on(repo, names):
  env = dict(os.environ, VERIF_REPO=repo, PYTHONDONTWRITEBYTECODE='1')
  p = subprocess.run([PY, '-c', DRIVER] + names, capture_output=True, text=True, env=env)
  import json
  try:
    return json.loads(p.stdout.strip().splitlines()[-1])
  except Exception:
    return {'__error__': [p.stdout[-300:], p.stderr[-800:]]}


def one_mutant(scratch, m):
  mid, f, old, new, names = m
  repo = os.path.join(scratch, mid)
  shutil.copytree(os.path.join(os.environ.get('VERIF_REPO', '/repo'), 'malt'), os.path.join(repo, 'malt'))
  try:
    path = os.path.join(repo, f)
    src = open(path).read()
    if src.count(old) != 1:
      return False, 'SKIP %s: pattern occurs %d times' % (mid, src.count(old))
    open(path, 'w').write(src.replace(old, new))
    res = run_on(repo, [n[3:] if n.startswith('ok:') else n for n in names])
    # 'ok:<contract>': a harmless edit -- the contract must still be proved (no false alarm)
    ok = all(res.get(n[3:], ['?'])[0] == 'proved' if n.startswith('ok:') else res.get(n, ['?'])[0] == 'refuted'
             for n in names) if names else True
    return ok, '%s %s %s' % ('caught ' if ok else 'MISSED ', mid,
                             {k: (v[0], v[2]) for k, v in res.items()} if '__error__' not in res else res)
  finally:
    shutil.rmtree(repo, ignore_errors=True)


def main():
  import concurrent.futures
  flt = sys.argv[1] if len(sys.argv) > 1 else ''
  bad = 0
  scratch = tempfile.mkdtemp(prefix='verif_selftest_')
  todo = [m for m in MUTANTS if not flt or flt in m[0]]
  try:
    # several mutants at a time (each is one sequential verification in its own interpreter)
    with concurrent.futures.ThreadPoolExecutor(max_workers=int(os.environ.get('SELFTEST_JOBS', '6'))) as ex:
      for ok, line in ex.map(lambda m: one_mutant(scratch, m), todo):
        print(line, flush=True)
        bad += 0 if ok else 1
  finally:
    shutil.rmtree(scratch, ignore_errors=True)
  print('selftest: %d problems' % bad)
  return 1 if bad else 0


if __name__ == '__main__':
  sys.exit(main())
