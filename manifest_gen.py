#!/usr/bin/env python3
"""Regenerates MANIFEST.json from the table below (run after adding a property check)."""
import json
import os

ALL = ['C%02d' % i for i in range(1, 21)]
TECH = 'contract-based deductive verification (self-generated VCs from the AST of the real functions, z3)'

CHECKS = {
    'C20': dict(
        category='proof',
        text='ConversionOptions.__init__/as_tuple/__eq__/__hash__/uses/call_options are proved against sidecar '
             'contracts for symbolic field values (z3, all inputs); eq/hash/call-options lemmas are proved over '
             'those contracts; the embedding site (FunctionTransformer.visit_FunctionDef / visit_Lambda) is proved, as a trace '
             'contract on every path, to hand the FunctionScope template to_ast() of the requested options (top-level scope) or '
             'of their call_options() (nested scopes); the to_ast round trip is enumerated over the complete finite domain on '
             'the real code; a bounded run-time evaluation of the embedded expressions supplements it',
        note='trusted: z3, the pvc VC generator, CPython ast.unparse/eval, value-based hash/eq of tuples, '
             'frozensets and enum members',
        technique=TECH + ' + exhaustive finite-domain enumeration',
        ref='DESIGN.md 7 C20'),
    'C01': dict(
        category='exploration',
        text='the all-programs clause is decided only by a bounded stand-in (differential run of to_graph/convert '
             'against the original over all control skeletons with <= K control nodes plus seeded random programs, '
             'all decision vectors explored adaptively); proved kernels (default operators are the native '
             'constructs, call wrapper, status stack, options) are discharged by pvc and reused as hypotheses',
        note='bounded, never counted as proved: program space and bounds are reported in the evidence; trusted: '
             'CPython as the reference semantics, the tracer-based notion of observation',
        technique='contract-based deductive verification of the operator kernels (pvc/z3) + bounded differential '
                  'stand-in for the compiler passes',
        ref='DESIGN.md 7 C01'),
    'C16': dict(
        category='proof',
        text='the status stack discipline (_control_ctx, control_status_ctx, ControlStatusCtx.__enter__/__exit__, '
             'FunctionScope.__init__/__enter__/__exit__, with_function_scope, the do_not_convert and '
             'call_with_unspecified_conversion_status wrappers) is proved against contracts for every callee that '
             'leaves the stack as it found it, returning or raising; thread isolation follows from ownership of the '
             'list by a threading.local attribute; a bounded stress run supplements it',
        note='trusted: z3, pvc, threading.local semantics, the with-statement protocol; the induction hypothesis '
             'about user callees is the only assumption about user code',
        technique=TECH + ' with the with-rule on both exits; bounded random call trees x threads as supplement',
        ref='DESIGN.md 7 C16'),
    'C07': dict(
        category='other',
        text='proved kernels (liveness transfer function incl. the nonlocal-closure clause, refinement lemma, worklist fixed '
             'point for all graphs; reaching-function-definitions value type, transfer function and refinement lemma; mirror '
             'invariant of the builder primitives; Scope.finalize) + assumed contracts K2/K3 with bounded stand-ins '
             '(use-before-overwrite oracle over executed programs)',
        note='the all-programs soundness clause rests on assumed contracts (CFG path inclusion, activity read/write '
             'sets) that are only bounded-checked; termination not proved',
        technique=TECH + '; bounded stand-ins for the assumed visitor contracts',
        ref='DESIGN.md 7 C07'),
}

PENDING_REASON = 'check not built yet (work in progress in this session; see DESIGN.md section 7 for the plan)'


def fill_from_table():
  import sys
  sys.path.insert(0, os.path.dirname(os.path.abspath(__file__)))
  from props import _table
  for pid, t in _table.TABLE.items():
    if pid in CHECKS:
      continue
    CHECKS[pid] = dict(
        category=t['level'],
        text=t['explanation'] + '; stand-ins: ' + '; '.join('%s (%s)' % b for b in t['bounded']),
        note='clauses served only by a bounded stand-in are not proved (bounds reported in the evidence); trusted: z3, '
             'the pvc VC generator, CPython as reference semantics for the oracles',
        technique=TECH + '; bounded run-time-checked contracts as stand-ins where no contract is discharged',
        ref='DESIGN.md I.5 / 7 ' + pid)


def main():
  fill_from_table()
  here = os.path.dirname(os.path.abspath(__file__))
  checks = []
  for pid in ALL:
    c = CHECKS.get(pid)
    if not c or not os.path.exists(os.path.join(here, 'props', pid + '.py')):
      continue
    checks.append({
        'property_id': pid,
        'quick_cmd': './check %s --tier quick' % pid,
        'thorough_cmd': './check %s --tier thorough' % pid,
        'evidence_file': '/verif/evidence/%s.json' % pid,
        'replay_cmd_template': './check %s --replay {path}' % pid,
        'engine': c.get('engine', 'pvc'),
        'level_claimed': {'category': c['category'], 'text': c['text'], 'design_ref': c['ref']},
        'level_note': c['note'],
        'technique': c['technique'],
    })
  claimed = {c['property_id'] for c in checks}
  m = {
      'version': 1,
      'setup_cmd': './setup.sh',
      'hooks': {
          'guard': 'DIASTATIC_MALT_VERIF',
          'enable': 'no hooks are needed: contracts are sidecar files under /verif/contracts; run-time '
                    'observation rebinds module attributes from the harness process',
          'baseline_off_cmd': 'cd /repo && /venv/bin/python -m pytest -ra -q -p no:cacheprovider --timeout=900 '
                              '--continue-on-collection-errors',
          'source_commits': [],
          'add_only': True,
      },
      'engines': [
          {'name': 'pvc', 'path': '/verif/pvc', 'serves_properties': sorted(claimed),
           'kind_free_text': 'AST->z3 verification-condition generator over the real functions of /repo '
                             '(sidecar contracts, modular calls, loop invariants, functional heap, event mode)'},
          {'name': 'bounded', 'path': '/verif/bounded', 'serves_properties': sorted(claimed),
           'kind_free_text': 'bounded stand-ins: run-time-checked contracts over enumerated/random programs '
                             '(labelled bounded, never counted as proved)'},
      ],
      'checks': checks,
      'not_applicable': [{'property_id': p, 'reason': NA.get(p, PENDING_REASON)} for p in ALL if p not in claimed],
      'notes': 'exit codes of ./check: 0 held, 1 violation (VIOLATION line), 2 undecided, 3 checker error',
  }
  with open(os.path.join(here, 'MANIFEST.json'), 'w') as f:
    json.dump(m, f, indent=1)
  print('MANIFEST.json: %d checks, %d not_applicable' % (len(checks), len(m['not_applicable'])))


NA = {}

if __name__ == '__main__':
  main()
