import json, sys, jsonschema, glob
ms = json.load(open('/root/.vp/MANIFEST.schema.json')); es = json.load(open('/root/.vp/EVIDENCE.schema.json'))
m = json.load(open('/verif/MANIFEST.json')); jsonschema.validate(m, ms); print('MANIFEST valid:', len(m['checks']), 'checks')
for f in sorted(glob.glob('/verif/evidence/*.json')):
  ev = json.load(open(f)); jsonschema.validate(ev, es); print(f.split('/')[-1], 'valid', ev['level'], ev.get('violations'), ev['wall_s'])
