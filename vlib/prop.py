"""Generic parts a property check is assembled from."""
import json
import os
import subprocess
import sys
import tempfile
import time

from vlib.report import Report, Finding, ROOT
from vlib import runner

PY = sys.executable
REPO = os.environ.get('VERIF_REPO', '/repo')

PY_SEMANTICS = [
    'Python integers are mathematical integers',
    'isinstance/hasattr/type are pure; attribute reads on modelled classes are field reads',
    'builtin containers behave per their documentation (sorted is a stable permutation ordered by key,'
    ' dict preserves insertion order, zip truncates); set/dict iteration order is arbitrary but fixed within one loop',
    'module-level names of /repo are not rebound at run time',
    'asserts execute (no -O); termination is not proved (partial correctness)',
    'extraction drops docstrings, comments and logging calls (kept as Log events only)',
]


def vc_part(rep, prop, timeout_ms=60000, concrete_hooks=None, only=None):
  """Engine A: all contracts serving `prop`."""
  names, w = runner.contracts_for(prop)
  if only is not None:
    names = [n for n in names if n in only]
  t0 = time.time()
  results = runner.verify_many(names, timeout_ms)
  cov = rep.coverage
  cov.setdefault('functions_under_contract', [])
  cov.setdefault('obligations', 0)
  cov.setdefault('discharged', 0)
  cov.setdefault('by_backend', {})
  cov.setdefault('solver_time_s', 0.0)
  cov.setdefault('samples', [])
  for r in results:
    cov['functions_under_contract'].append(dict(
        function=r['function'], status=r['status'], obligations=r['obligations'],
        discharged=r['discharged'], paths=r['paths'], source_sha256=r['source_sha'][:16],
        func_hash=r['func_hash'], time_s=r['time_s']))
    cov['obligations'] += r['obligations']
    cov['discharged'] += r['discharged']
    cov['solver_time_s'] = round(cov['solver_time_s'] + r['solver_time_s'], 3)
    for k, v in r['by_solver'].items():
      cov['by_backend'][k] = cov['by_backend'].get(k, 0) + v
    for a in r['assumes']:
      rep.assumptions.append('%s: %s' % (r['function'].rsplit('.', 2)[-2] + '.' + r['function'].rsplit('.', 1)[-1], a))
    if len(cov['samples']) < 12 and r['obligation_names']:
      cov['samples'].append('%s :: %s' % (r['function'], r['obligation_names'][0]))
    if r['status'] == 'proved':
      continue
    if r['status'] == 'error':
      rep.error('%s: %s' % (r['function'], r['message']))
      continue
    if r['status'] == 'undecided' and not r['failed']:
      # the function left the supported subset (no obligations): only the run-time evaluation of its
      # contract on the real code can still decide something
      hook = (concrete_hooks if concrete_hooks is not None else {}).get(r['function'])
      witness = None
      if hook is not None:
        try:
          witness = hook(dict(name='contract', detail=r['message']))
        except Exception:
          witness = None
      if witness is not None:
        rep.add_finding(Finding(prop, 'vc:%s/contract' % r['function'],
                                'the contract of %s could not be turned into obligations (%s) and its run-time '
                                'evaluation on the real code fails' % (r['function'], r['message'][:200]),
                                replay=dict(obligation=r['function'] + '/contract', clause=r['message'], failing_input=witness),
                                concrete=True))
      else:
        rep.undecide(r['function'], r['message'])
      continue
    for f in r['failed']:
      oname = '%s/%s' % (r['function'], f['name'])
      if f['status'] == 'refuted':
        replay = dict(obligation=oname, clause=f['detail'], solver_output=f['model'],
                      note='counter-model of the negated verification condition (z3)')
        concrete = False
        hook = (concrete_hooks if concrete_hooks is not None else {}).get(r['function'])
        if hook is not None:
          try:
            witness = hook(f)
          except Exception as e:   # a crashing replay is not evidence either way
            witness = None
            replay['replay_error'] = repr(e)
          if witness is not None:
            concrete = True
            replay['failing_input'] = witness
        rep.add_finding(Finding(prop, 'vc:' + oname, 'obligation %s refuted: %s' % (oname, f['detail']),
                                replay=replay, concrete=concrete))
      else:
        # solver gave up: only a concrete failing input on the real code can turn this into a violation
        hook = (concrete_hooks if concrete_hooks is not None else {}).get(r['function'])
        witness = None
        if hook is not None:
          try:
            witness = hook(f)
          except Exception:
            witness = None
        if witness is not None:
          rep.add_finding(Finding(prop, 'vc:' + oname, 'obligation %s not discharged and a failing input exists: %s'
                                  % (oname, f['detail']),
                                  replay=dict(obligation=oname, clause=f['detail'], failing_input=witness),
                                  concrete=True))
        else:
          rep.undecide(oname, 'solver unknown')
  rep.assumptions.extend(PY_SEMANTICS)
  return results


def run_child(script, args, timeout=3600, env=None):
  """Run a helper in a fresh interpreter with a private TMPDIR (malt's loader litters the temp dir)."""
  scratch = tempfile.mkdtemp(prefix='verif_')
  e = dict(os.environ)
  e['TMPDIR'] = scratch
  e['PYTHONDONTWRITEBYTECODE'] = '1'
  e['PYTHONPATH'] = ROOT + os.pathsep + REPO
  e.update(env or {})
  try:
    p = subprocess.run([PY, script] + list(args), capture_output=True, text=True, timeout=timeout, env=e)
    return p.returncode, p.stdout, p.stderr
  finally:
    subprocess.run(['rm', '-rf', scratch])


def finish_proof_coverage(rep, checker_cmd, trusted):
  cov = rep.coverage
  cov['checker_cmd'] = checker_cmd
  cov['trusted_base'] = trusted
