"""Syntactic frame obligations: facts of the form "only these functions touch this state", decided by an AST
scan of the real source on every run.  They close the modular argument "every other method preserves the
invariant because it can only change the state through primitives that are under contract".

A failing scan is a named obligation that no longer holds; it has no failing *input* (the VIOLATION line
ends with no-failing-input-found) and the replay names the offending source location."""
import ast
import os

from pvc.world import REPO

MUTATORS = {'add', 'update', 'remove', 'discard', 'clear', 'pop', 'difference_update', 'intersection_update',
            'symmetric_difference_update', '__ior__', '__iand__', '__isub__', 'append', 'extend', 'insert'}
READERS = {'set', 'frozenset', 'len', 'list', 'tuple', 'sorted', 'iter', 'bool', 'any', 'all'}


def _functions(tree):
  """(qualified name, node) for every def, with class prefix."""
  out = []

  def walk(node, prefix):
    for ch in ast.iter_child_nodes(node):
      if isinstance(ch, ast.ClassDef):
        walk(ch, prefix + ch.name + '.')
      elif isinstance(ch, (ast.FunctionDef, ast.AsyncFunctionDef)):
        out.append((prefix + ch.name, ch))
        walk(ch, prefix + ch.name + '.<locals>.')
      else:
        walk(ch, prefix)
  walk(tree, '')
  return out


def attr_writers(module, attrs, allowed, ctor=None, ctor_allowed=()):
  """Obligation: in `module`, an attribute named in `attrs` is assigned, deleted, mutated through a mutating
  method, augmented, or passed to an unknown callee only inside the functions `allowed`; the constructor
  `ctor` is called only inside `ctor_allowed`.  Returns (n_sites_checked, [violations])."""
  path = os.path.join(REPO, *module.split('.')) + '.py'
  tree = ast.parse(open(path).read())
  parents = {}
  for n in ast.walk(tree):
    for ch in ast.iter_child_nodes(n):
      parents[ch] = n
  owner = {}
  for q, fn in _functions(tree):
    for n in ast.walk(fn):
      owner[n] = q     # innermost wins because _functions lists outer functions first
  sites, bad = 0, []
  for n in ast.walk(tree):
    if isinstance(n, ast.Attribute) and n.attr in attrs:
      sites += 1
      p = parents.get(n)
      q = owner.get(n, '<module>')
      how = None
      if isinstance(n.ctx, (ast.Store, ast.Del)):
        how = 'assigned' if isinstance(n.ctx, ast.Store) else 'deleted'
      elif isinstance(p, ast.Attribute) and p.value is n and isinstance(parents.get(p), ast.Call) \
          and parents[p].func is p:
        if p.attr in MUTATORS:
          how = 'mutated through .%s()' % p.attr
      elif isinstance(p, ast.AugAssign) and p.target is n:
        how = 'augmented'
      elif isinstance(p, ast.Call) and n in p.args:
        f = p.func
        fname = f.id if isinstance(f, ast.Name) else (f.attr if isinstance(f, ast.Attribute) else '?')
        if fname not in READERS and not (isinstance(f, ast.Attribute) and f.attr in ('WeakSet',)):
          how = 'passed to %s()' % fname
      elif isinstance(p, (ast.Return, ast.Assign)) and getattr(p, 'value', None) is n:
        # an alias escapes into a local / the caller: allowed only when that name is then only read;
        # checked conservatively: the enclosing function must not call a mutator on any bare name bound here
        names = [t.id for t in getattr(p, 'targets', []) if isinstance(t, ast.Name)]
        fn = next((f for qq, f in _functions(tree) if qq == q), None)
        for m in ast.walk(fn) if fn is not None else []:
          if isinstance(m, ast.Call) and isinstance(m.func, ast.Attribute) and m.func.attr in MUTATORS \
              and isinstance(m.func.value, ast.Name) and m.func.value.id in names:
            how = 'aliased as %s and mutated' % m.func.value.id
      if how and q not in allowed:
        bad.append(dict(module=module, function=q, line=n.lineno, what='.%s %s' % (n.attr, how)))
    if ctor and isinstance(n, ast.Call) and isinstance(n.func, ast.Name) and n.func.id == ctor:
      sites += 1
      q = owner.get(n, '<module>')
      if q not in ctor_allowed:
        bad.append(dict(module=module, function=q, line=n.lineno, what='%s(...) constructed' % ctor))
  return sites, bad
