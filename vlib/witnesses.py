"""Witness programs of recorded findings (known_findings.txt).  Each witness is re-run on every check:
while it still fails, the check prints the KNOWN-FINDING line; a different failure is a VIOLATION."""
import json
import os

from vlib.report import Finding, ROOT


def run(rep, prop):
  from vlib import prop as P
  script = os.path.join(ROOT, 'bounded', 'witnesses.py')
  rc, out, err = P.run_child(script, [prop], timeout=600)
  try:
    res = json.loads(out.strip().splitlines()[-1])
  except Exception:
    rep.error('witness runner failed rc=%s: %s | %s' % (rc, out[-300:], err[-600:]))
    return
  rep.coverage.setdefault('witnesses_run', 0)
  rep.coverage['witnesses_run'] += res['run']
  for w in res['failing']:
    rep.add_finding(Finding(prop, 'witness:%s' % w['id'], w['what'], replay=w, concrete=True))

  # the demonstration scripts of the seeded changes (seeded/<id>-*/demo.py): regression scenarios that must pass
  script = os.path.join(ROOT, 'bounded', 'seed_demos.py')
  rc, out, err = P.run_child(script, [prop], timeout=1500)
  try:
    res = json.loads(out.strip().splitlines()[-1])
  except Exception:
    rep.error('seed demo runner failed rc=%s: %s | %s' % (rc, out[-300:], err[-600:]))
    return
  rep.coverage['seed_demos_run'] = res['run']
  for w in res['failing']:
    rep.add_finding(Finding(prop, 'witness:seed-demo:%s' % w['id'], 'scenario of the seeded change %s fails: %s' % (w['id'], w['what']),
                            replay=dict(w, script='seeded/%s/demo.py' % w['id']), concrete=True))
