"""Concrete replay hooks: contract name -> run-time contract checker on small inputs of the real code.

A hook returns a failing input (dict) or None.  A refuted obligation with a failing input is a
VIOLATION with a replayable witness; a solver `unknown` becomes a violation only through a hook."""
import json
import os

from vlib.report import ROOT

SCRIPTS = {
    'malt.pyct.cfg.GraphVisitor._visit_internal': ('bounded/rt_worklist.py', ['0', 'quick']),
    'malt.pyct.static_analysis.liveness.Analyzer.visit_node': ('bounded/rt_liveness.py', ['0', 'quick']),
    'lemma.C07.liveness_visit_node_refines_abstract': ('bounded/rt_liveness.py', ['0', 'quick']),
}
SCRIPTS['malt.pyct.naming.Namer.new_symbol'] = ('bounded/rt_namer.py', ['0', 'quick'])
for _f in ('malt.core.ag_ctx.ControlStatusCtx.__enter__', 'malt.core.ag_ctx.ControlStatusCtx.__exit__', 'malt.core.ag_ctx.control_status_ctx',
           'malt.core.ag_ctx._control_ctx', 'malt.operators.function_wrappers.FunctionScope.__enter__',
           'malt.operators.function_wrappers.FunctionScope.__exit__', 'malt.operators.function_wrappers.FunctionScope.__init__',
           'malt.operators.function_wrappers.with_function_scope', 'malt.impl.api.do_not_convert.<locals>.wrapper',
           'malt.impl.api.call_with_unspecified_conversion_status.<locals>.wrapper'):
  SCRIPTS[_f] = ('bounded/rt_ctx.py', ['0', 'quick'])
for _f in ('malt.pyct.error_utils.ErrorMetadataBase.create_exception', 'malt.impl.api._ErrorMetadata.create_exception'):
  SCRIPTS[_f] = ('bounded/rt_errors.py', ['0', 'quick'])
for _f in ('malt.impl.api.converted_call', 'malt.impl.api._call_unconverted'):
  SCRIPTS[_f] = ('bounded/rt_convcall.py', ['0', 'quick'])
for _f in ('abs_', 'float_', 'int_', 'len_', 'range_', 'enumerate_', 'next_', 'filter_', 'any_', 'all_', 'sorted_'):
  SCRIPTS['malt.operators.py_builtins.' + _f] = ('bounded/c14_builtins.py', ['1', 'quick'])
for _f in ('_get_block_vars', '_get_block_basic_vars', '_get_block_composite_vars'):
  SCRIPTS['malt.converters.control_flow.ControlFlowTransformer.' + _f] = ('bounded/rt_blockvars.py', ['0', 'quick'])
for _m in ('__init__', 'as_tuple', '__eq__', '__hash__', 'uses', 'call_options'):
  SCRIPTS['malt.core.converter.ConversionOptions.' + _m] = ('bounded/c20_roundtrip.py', ['--contracts'])

for _f in ('_node_matches_argspec', '_arg_name'):
  SCRIPTS['malt.pyct.parser.' + _f] = ('bounded/rt_argspec.py', ['0', 'quick'])
SCRIPTS['malt.pyct.transpiler.GenericTranspiler._erase_arg_defaults'] = ('bounded/c09_interface.py', ['1', 'quick'])

for _f in ('Scope.__init__', 'Scope.finalize', 'Scope.referenced', 'Scope.enclosing_scope', 'Scope.free_vars', 'Scope.mark_param',
           'ActivityAnalyzer._track_symbol', 'ActivityAnalyzer._enter_scope', 'ActivityAnalyzer._exit_scope'):
  SCRIPTS['malt.pyct.static_analysis.activity.' + _f] = ('bounded/rt_scope.py', ['0', 'quick'])

for _f in ('GraphBuilder._connect_nodes#node', 'GraphBuilder._connect_nodes#set', 'GraphBuilder._add_new_node',
           'GraphBuilder.add_ordinary_node', 'GraphBuilder._add_jump_node', 'Node.freeze'):
  SCRIPTS['malt.pyct.cfg.' + _f] = ('bounded/c05_paths.py', ['1', 'quick'])

for _f in ('malt.pyct.static_analysis.reaching_definitions.Analyzer.visit_node', 'lemma.C06.rd_visit_node_refines_abstract'):
  SCRIPTS[_f] = ('bounded/rt_rd.py', ['0', 'quick'])

SCRIPTS['malt.pyct.static_analysis.type_inference.Analyzer._update_closure_types'] = ('bounded/c19_types.py', ['1', 'quick'])
SCRIPTS['malt.pyct.transpiler.PyToPy.transform_function'] = ('bounded/c10_cache.py', ['1', 'quick'])

SCRIPTS['malt.converters.control_flow.ControlFlowTransformer._create_state_functions'] = ('bounded/c03_opcontract.py', ['1', 'quick'])

for _f in ('Analyzer.visit_node', '_NodeState.__init__', '_NodeState.__or__', '_NodeState.__add__', '_NodeState.__eq__', '_NodeState.__ne__'):
  SCRIPTS['malt.pyct.static_analysis.reaching_fndefs.' + _f] = ('bounded/rt_fndefs.py', ['0', 'quick'])
SCRIPTS['lemma.C07.fndefs_visit_node_refines_abstract'] = ('bounded/rt_fndefs.py', ['0', 'quick'])

for _f in ('_TypeMap.__init__', '_TypeMap.__or__'):
  SCRIPTS['malt.pyct.static_analysis.type_inference.' + _f] = ('bounded/c19_types.py', ['1', 'quick'])

SCRIPTS['malt.pyct.transpiler._PythonFnFactory.instantiate'] = ('bounded/c09_interface.py', ['1', 'quick'])

for _f in ('_TransformedFnCache.has', '_TransformedFnCache.__getitem__', 'CodeObjectCache._get_key', 'UnboundInstanceCache._get_key'):
  SCRIPTS['malt.pyct.cache.' + _f] = ('bounded/rt_cache.py', ['0', 'quick'])

for _f in ('visit_FunctionDef', 'visit_Lambda'):
  SCRIPTS['malt.converters.functions.FunctionTransformer.' + _f] = ('bounded/rt_embed.py', ['0', 'quick'])

for _f in ('__init__', '_absolute_lineno', '_absolute_col_offset'):
  SCRIPTS['malt.pyct.origin_info.OriginResolver.' + _f] = ('bounded/rt_origin.py', ['0', 'quick'])

SCRIPTS['malt.operators.py_builtins.overload_of'] = ('bounded/rt_convcall.py', ['0', 'quick'])

SCRIPTS['malt.impl.api.PyToPy.get_caching_key'] = ('bounded/rt_cachekey.py', [])

_cache = {}


def run_hook(function):
  if function not in SCRIPTS:
    return None
  script, args = SCRIPTS[function]
  key = (script, tuple(args))
  if key not in _cache:
    from vlib import prop
    rc, out, err = prop.run_child(os.path.join(ROOT, script), args, timeout=900)
    try:
      res = json.loads(out.strip().splitlines()[-1])
      _cache[key] = res['failures'][0] if res.get('failures') else None
    except Exception:
      # the evaluator itself died inside the real code (it does not on the unchanged tree, and hooks are
      # consulted only for obligations the solver left open): the script and its traceback are the replay
      _cache[key] = dict(kind='hook-crash', sig=os.path.basename(script), what='run-time contract evaluator crashed: '
                         + (err or out)[-600:], script=script, args=list(args)) if rc not in (0, None) else None
  return _cache[key]


class _Hooks(dict):
  def get(self, function, default=None):
    if function in SCRIPTS:
      return lambda f: run_hook(function)
    return default


HOOKS = _Hooks()
