"""Parallel generation + discharge of the obligations of a set of contracts."""
import multiprocessing as mp
import os
import time

_WORLD = None


def _init():
  global _WORLD
  from contracts import build_world
  _WORLD = build_world()


def _one(args):
  name, timeout_ms = args
  from pvc.verify import verify_contract
  c = _WORLD.contracts[name]
  r = verify_contract(_WORLD, c, timeout_ms)
  d = r.summary()
  d['source_sha'] = r.source_sha
  d['serves'] = c.serves
  d['assumes'] = c.assumes
  d['obligation_names'] = [o.name for o in r.obligations]
  d['solver_time_s'] = round(sum(o.time for o in r.obligations), 3)
  d['unknown_smt2'] = [(o.name, getattr(o, 'smt2', '')) for o in r.obligations if o.status == 'unknown'][:3]
  return d


def contracts_for(prop):
  from contracts import build_world
  w = build_world()
  return [n for n, c in w.contracts.items() if prop in c.serves and not c.abstract], w


def verify_many(names, timeout_ms=60000, procs=None):
  """Returns list of summary dicts (one per function)."""
  if not names:
    return []
  procs = procs or min(16, len(names), os.cpu_count() or 4)
  ctx = mp.get_context('fork')
  with ctx.Pool(procs, initializer=_init) as pool:
    out = pool.map(_one, [(n, timeout_ms) for n in names], chunksize=1)
  return out
