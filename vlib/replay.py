"""./check <id> --replay <replay file>: re-runs, against the current /repo, the part of the check that produced a
VIOLATION (the replay file written by vlib.report names it by its finding key) and says whether it still fails.

  vc:<function>/<obligation>     the contract of that function is re-verified; the replay hook (run-time evaluation of
                                 the same contract on small inputs of the real function) is run when there is one
  bounded:<script>:<kind>:<sig>  the stand-in script is re-run (same seed / tier as in the environment) and its
                                 failures are searched for the same kind and signature
  witness:<id>                   the witness program is re-run
  scan:...                       the syntactic frame obligation is re-evaluated
  anything else                  the whole check is re-run

exit 1 + "REPRODUCED ..." when it still fails, exit 0 + "NOT-REPRODUCED ..." otherwise (2 = could not decide)."""
import importlib
import json
import os

from vlib.report import ROOT


def _show(d):
  rp = d.get('replay') or {}
  for k in ('obligation', 'clause', 'what', 'failing_input', 'program', 'solver_output'):
    if k in rp and rp[k]:
      print('  %s: %s' % (k, str(rp[k])[:1500]))


def run(prop, path):
  d = json.load(open(path))
  key = d.get('key', '')
  print('replaying %s (property %s): %s' % (key, prop, str(d.get('what', ''))[:300]))
  _show(d)
  seed = int(os.environ.get('VERIF_SEED', '0') or 0)
  tier = os.environ.get('VERIF_TIER', 'quick')
  if key.startswith('vc:'):
    from contracts import build_world
    from pvc.verify import verify_contract
    from vlib import hooks
    w = build_world()
    rest = key[3:]
    fn = max((n for n in w.contracts if rest == n or rest.startswith(n + '/')), key=len, default=None)
    if fn is None:
      print('UNDECIDED no contract named in %s' % key)
      return 2
    r = verify_contract(w, w.contracts[fn], 60000)
    bad = [o for o in r.obligations if o.status != 'proved']
    print('contract %s: %s (%d obligations, %d not discharged) %s' % (fn, r.status, len(r.obligations), len(bad), r.message[:200]))
    for o in bad[:10]:
      print('  %s %s | %s' % (o.status, o.name, str(o.detail)[:200]))
    wit = hooks.run_hook(fn) if r.status != 'proved' else None
    if wit is not None:
      print('  failing input on the real code: %s' % json.dumps(wit, default=str)[:1500])
    if r.status == 'refuted' or wit is not None:
      print('REPRODUCED %s' % key)
      return 1
    if r.status == 'proved':
      print('NOT-REPRODUCED %s: every obligation of %s is discharged on the current tree' % (key, fn))
      return 0
    print('UNDECIDED %s' % key)
    return 2
  if key.startswith('bounded:'):
    from vlib import prop as P
    _, script, kind, sig = (key.split(':', 3) + ['', ''])[:4]
    rc, out, err = P.run_child(os.path.join(ROOT, 'bounded', script + '.py'), [str(seed), tier], timeout=3000)
    try:
      res = json.loads(out.strip().splitlines()[-1])
    except Exception:
      print('UNDECIDED %s did not finish: rc=%s %s' % (script, rc, (err or out)[-400:]))
      return 2
    hits = [f for f in res.get('failures') or [] if f.get('kind') == kind and str(f.get('sig', ''))[:80] == sig]
    for f in hits[:3]:
      print('  %s' % json.dumps({k: v for k, v in f.items() if k != 'program'}, default=str)[:800])
    if hits:
      print('REPRODUCED %s' % key)
      return 1
    print('NOT-REPRODUCED %s (%s, seed %d, tier %s: %s cases, other failures: %s)' % (
        key, script, seed, tier, res.get('evaluated'), sorted({'%s:%s' % (f.get('kind'), f.get('sig')) for f in res.get('failures') or []})[:6]))
    return 0
  if key.startswith('witness:seed-demo:'):
    from vlib import prop as P
    rc, out, err = P.run_child(os.path.join(ROOT, 'bounded', 'seed_demos.py'), [prop], timeout=1500)
    res = json.loads(out.strip().splitlines()[-1])
    hit = [w for w in res['failing'] if w['id'] == key[len('witness:seed-demo:'):]]
    if hit:
      print('  %s' % hit[0]['what'][:900])
      print('REPRODUCED %s' % key)
      return 1
    print('NOT-REPRODUCED %s' % key)
    return 0
  if key.startswith('witness:'):
    from vlib import prop as P
    rc, out, err = P.run_child(os.path.join(ROOT, 'bounded', 'witnesses.py'), [prop], timeout=600)
    res = json.loads(out.strip().splitlines()[-1])
    hit = [w for w in res['failing'] if w['id'] == key[8:]]
    if hit:
      print('  %s' % hit[0]['what'][:800])
      print('REPRODUCED %s' % key)
      return 1
    print('NOT-REPRODUCED %s' % key)
    return 0
  if key.startswith('scan:'):
    from vlib.report import Report
    rep = Report(prop, tier, seed, 'other')
    importlib.import_module('props.' + prop).frame_scan(rep, tier)
    hit = [f for f in rep.findings if f.key == key]
    if hit:
      print('  %s' % hit[0].what[:600])
      print('REPRODUCED %s' % key)
      return 1
    print('NOT-REPRODUCED %s' % key)
    return 0
  rc = importlib.import_module('props.' + prop).run(tier, seed)
  print(('REPRODUCED' if rc == 1 else 'NOT-REPRODUCED') + ' (whole check re-run, exit %d)' % rc)
  return 1 if rc == 1 else 0
