"""Evidence files, known findings, VIOLATION lines and exit codes."""
import json
import os
import re
import time

ROOT = os.path.dirname(os.path.dirname(os.path.abspath(__file__)))
KNOWN = os.path.join(ROOT, 'known_findings.txt')


class Finding(object):
  """One thing that went wrong: a refuted obligation or a bounded-stand-in failure."""

  def __init__(self, prop, key, what, replay=None, concrete=False, payload=None):
    self.prop = prop
    self.key = key            # stable identifier matched against known_findings.txt
    self.what = what
    self.replay = replay      # dict written to the replay file
    self.concrete = concrete  # a failing input was reproduced on the real code
    self.payload = payload


def load_known():
  """finding: property=<id> key=<regex> :: text   |   fixed: property=<id> <commit> <text>"""
  out = []
  if not os.path.exists(KNOWN):
    return out
  for line in open(KNOWN):
    line = line.strip()
    m = re.match(r'finding:\s+property=(\S+)\s+key=(\S+)\s+::\s+(.*)', line)
    if m:
      out.append((m.group(1), m.group(2), m.group(3)))
  return out


def _one_line(x, n):
  # explanations go on ONE line: a line of embedded program output must never look like a VIOLATION / KNOWN-FINDING line
  return ' | '.join(l.strip() for l in str(x)[:n].splitlines() if l.strip())


class Report(object):
  def __init__(self, prop, tier, seed, level):
    self.prop = prop
    self.tier = tier
    self.seed = seed
    self.level = level
    self.t0 = time.time()
    self.findings = []
    self.undecided = []
    self.errors = []
    self.coverage = {}
    self.assumptions = []
    self.lines = []

  def add_finding(self, f):
    self.findings.append(f)

  def undecide(self, name, reason):
    self.undecided.append((name, reason))

  def error(self, msg):
    self.errors.append(msg)

  def finish(self):
    known = load_known()
    violations = 0
    known_hit = []
    os.makedirs(os.path.join(ROOT, 'replays', self.prop), exist_ok=True)
    for f in self.findings:
      hit = None
      for prop, keyre, text in known:
        if prop == self.prop and re.fullmatch(keyre, f.key):
          hit = text
          break
      if hit is not None:
        line = 'KNOWN-FINDING: property=%s %s [%s]' % (self.prop, hit, f.key)
        if line not in self.lines:
          self.lines.append(line)
          print(line)
        known_hit.append(f.key)
        continue
      violations += 1
      safe = re.sub(r'[^A-Za-z0-9_.-]+', '_', f.key)[:120]
      path = os.path.join(ROOT, 'replays', self.prop, '%s.json' % safe)
      with open(path, 'w') as fh:
        json.dump(dict(property=self.prop, key=f.key, what=f.what, concrete=f.concrete,
                       replay=f.replay), fh, indent=1, default=str)
      tail = '' if f.concrete else ' no-failing-input-found'
      print('VIOLATION property=%s replay=%s%s' % (self.prop, path, tail))
      print('  -> %s' % _one_line(f.what, 600))
    for name, reason in self.undecided:
      print('UNDECIDED obligation=%s reason=%s' % (name, _one_line(reason, 300)))
    for e in self.errors:
      print('ERROR %s' % _one_line(e, 1500))
    ev = dict(property_id=self.prop, tier=self.tier, seed=self.seed, level=self.level,
              coverage=self.coverage, assumptions=sorted(set(self.assumptions)),
              wall_s=round(time.time() - self.t0, 2), violations=violations,
              known_findings_hit=sorted(set(known_hit)),
              undecided=[list(u) for u in self.undecided][:50], errors=self.errors[:20])
    os.makedirs(os.path.join(ROOT, 'evidence'), exist_ok=True)
    with open(os.path.join(ROOT, 'evidence', '%s.json' % self.prop), 'w') as fh:
      json.dump(ev, fh, indent=1, default=str)
    if violations:
      return 1
    if self.errors:
      return 3
    if self.undecided:
      return 2
    print('OK property=%s tier=%s wall=%.1fs' % (self.prop, self.tier, time.time() - self.t0))
    return 0
