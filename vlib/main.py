import argparse
import importlib
import os
import sys
import traceback


def main():
  ap = argparse.ArgumentParser()
  ap.add_argument('prop')
  ap.add_argument('--tier', default=os.environ.get('VERIF_TIER', 'quick'))
  ap.add_argument('--replay')
  a = ap.parse_args()
  seed = int(os.environ.get('VERIF_SEED', '0') or 0)
  if a.replay:
    from vlib import replay
    sys.exit(replay.run(a.prop, a.replay))
  try:
    mod = importlib.import_module('props.' + a.prop)
  except ImportError as e:
    print('ERROR no check for %s: %s' % (a.prop, e))
    sys.exit(3)
  try:
    rc = mod.run(a.tier, seed)
  except Exception:
    traceback.print_exc()
    print('ERROR checker crashed')
    rc = 3
  sys.exit(rc)


if __name__ == '__main__':
  main()
