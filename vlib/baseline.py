"""Runs the repository's pinned test command (guard off) and compares with /root/.vp/BASELINE.json."""
import json
import subprocess
import sys
import tempfile
import xml.etree.ElementTree as ET


def main():
  base = json.load(open('/root/.vp/BASELINE.json'))
  want = set(base['stable_pass'])
  with tempfile.NamedTemporaryFile(suffix='.xml') as f:
    cmd = ('cd /repo && /venv/bin/python -m pytest -ra -q -p no:cacheprovider --timeout=900 '
           '--continue-on-collection-errors --junitxml=%s' % f.name)
    subprocess.run(cmd, shell=True, capture_output=True, text=True)
    root = ET.parse(f.name).getroot()
  passed = set()
  for tc in root.iter('testcase'):
    if not any(ch.tag in ('failure', 'error', 'skipped') for ch in tc):
      passed.add('%s::%s' % (tc.get('classname'), tc.get('name')))
  missing = sorted(want - passed)
  print('baseline: %d stable tests, %d pass now, %d missing, %d newly passing' % (
      len(want), len(want & passed), len(missing), len(passed - want)))
  for m in missing[:20]:
    print('  MISSING', m)
  return 1 if missing else 0


if __name__ == '__main__':
  sys.exit(main())
