"""pvc -- verification-condition generator for the real Python functions of /repo.

See /verif/DESIGN.md section 3.  Nothing in this package contains a copy of any
function body of /repo: bodies are read from the working tree on every run.
"""
