"""Pure (non-forking) evaluator for specification expressions."""
import ast
import z3

from pvc.core import *  # noqa: F401,F403
from pvc import ops
from pvc.ops import to_u, from_u, truthy, values_equal, identical, as_setpred


class SpecCtx(object):
  """Evaluation context for a spec expression: environment + one heap (+ the old context)."""

  def __init__(self, env, heap, pc, old=None, modinfo=None):
    self.env = env
    self.heap = heap
    self.pc = pc
    self.old = old
    self.modinfo = modinfo
    self.pre = None

  def assume(self, f):
    if not z3.is_true(f):
      self.pc.append(f)

  def bind(self, name, v):
    env = dict(self.env)
    env[name] = v
    c = SpecCtx(env, self.heap, self.pc, None, self.modinfo)
    if self.old is not None:
      oenv = dict(self.old.env)
      oenv[name] = v
      c.old = SpecCtx(oenv, self.old.heap, self.pc, None, self.modinfo)
    if self.pre is not None:
      penv = dict(self.pre.env)
      penv[name] = v
      c.pre = SpecCtx(penv, self.pre.heap, self.pc, None, self.modinfo)
    return c


def parse_spec(s):
  try:
    return ast.parse(s.strip(), mode='eval').body
  except SyntaxError as e:
    raise SpecError('bad spec expression %r: %s' % (s, e))


class SpecMixin(object):

  def spec_bool(self, s, cx):
    try:
      v = self.sv(parse_spec(s) if isinstance(s, str) else s, cx)
    except SpecUndefined:
      return z3.BoolVal(False)
    return truthy(v, cx)

  def sv(self, n, cx):
    m = getattr(self, 'sv_' + type(n).__name__, None)
    if m is None:
      raise SpecError('spec construct not supported: %s' % type(n).__name__)
    return m(n, cx)

  def sv_Constant(self, n, cx):
    return const_val(n.value)

  def sv_Name(self, n, cx):
    if n.id in cx.env:
      return cx.env[n.id]
    if n.id in ('True', 'False'):
      return VBool(n.id == 'True')
    g = self.resolve_global(n.id, cx.modinfo)
    if g is None:
      if n.id.startswith('final_'):
        raise SpecUndefined('local %s is not bound at this exit' % n.id[6:])
      raise SpecError('spec refers to unknown name %r' % n.id)
    return g

  def sv_Tuple(self, n, cx):
    return VTuple([self.sv(e, cx) for e in n.elts])

  def sv_Set(self, n, cx):
    us = [to_u(self.sv(e, cx), cx) for e in n.elts]
    return VSetExpr(lambda e: z3.Or([e == u for u in us]))

  def sv_Attribute(self, n, cx):
    base = self.sv(n.value, cx)
    return self.read_attr(base, n.attr, cx, spec=True)

  def sv_Subscript(self, n, cx):
    base = self.sv(n.value, cx)
    if isinstance(n.slice, ast.Slice):
      raise SpecError('slices in specs unsupported')
    idx = self.sv(n.slice, cx)
    if isinstance(base, VTuple):
      if isinstance(idx, VInt) and z3.is_int_value(idx.t):
        i = idx.t.as_long()
        if not -len(base.items) <= i < len(base.items):
          raise SpecUndefined('tuple index out of range')
        return base.items[i]
      raise SpecError('tuple index must be constant')
    if isinstance(base, VRef) and base.ty.kind == 'opt' and base.ty.args and base.ty.args[0].kind in ('dict', 'list', 'vtuple'):
      base = VOldRef(base.t, base.ty.args[0], base.heap) if hasattr(base, 'heap') else VRef(base.t, base.ty.args[0])
    if isinstance(base, VRef):
      k = base.ty.kind
      if k == 'dict':
        vt = base.ty.args[1] if len(base.ty.args) > 1 else ANY
        if getattr(self, 'comp_defined', None) is not None:
          # element expression of a comprehension: d[k] raises KeyError unless k is a key (collected, see comp_to_seq)
          self.comp_defined.append(heap_of(base, cx).dom(base.t, to_u(idx, cx)))
        return from_u(heap_of(base, cx).val(base.t, to_u(idx, cx)), vt, cx)
      if k in ('list', 'vtuple'):
        if not isinstance(idx, VInt):
          raise SpecError('list index must be int')
        i = idx.t
        if z3.is_int_value(i) and i.as_long() < 0:
          i = heap_of(base, cx).len(base.t) + i
        return from_u(heap_of(base, cx).item(base.t, i), base.ty.elem, cx)
      if k == 'obj':
        path = '%s.__getitem__' % base.ty.name
        rt = self.pure_ret_type(path)
        if rt is None:
          raise SpecError('%s is not declared pure' % path)
        return self.pure_app(path, [base, idx], rt, cx)
    raise SpecError('cannot subscript %r' % (base,))

  def sv_UnaryOp(self, n, cx):
    v = self.sv(n.operand, cx)
    if isinstance(n.op, ast.Not):
      return VBool(z3.Not(truthy(v, cx)))
    if isinstance(n.op, ast.USub) and isinstance(v, VInt):
      return VInt(z3.simplify(-v.t))
    raise SpecError('unary op')

  def sv_BoolOp(self, n, cx):
    vals = []
    is_and = isinstance(n.op, ast.And)
    for v in n.values:
      t = truthy(self.sv(v, cx), cx)
      vals.append(t)
      ts = z3.simplify(t)
      if (is_and and z3.is_false(ts)) or (not is_and and z3.is_true(ts)):
        break                       # short circuit: later operands may be undefined
    return VBool(z3.And(vals) if is_and else z3.Or(vals))

  def sv_IfExp(self, n, cx):
    c = truthy(self.sv(n.test, cx), cx)
    a, b = self.sv(n.body, cx), self.sv(n.orelse, cx)
    return ite_val(c, a, b, cx)

  def sv_Compare(self, n, cx):
    left = self.sv(n.left, cx)
    conj = []
    for op, rn in zip(n.ops, n.comparators):
      right = self.sv(rn, cx)
      conj.append(self.compare(op, left, right, cx))
      left = right
    return VBool(z3.And(conj) if len(conj) > 1 else conj[0])

  def compare(self, op, a, b, cx):
    if isinstance(op, ast.Eq):
      return self.eq_values(a, b, cx)
    if isinstance(op, ast.NotEq):
      return z3.Not(self.eq_values(a, b, cx))
    if isinstance(op, ast.Is):
      return identical(a, b, cx)
    if isinstance(op, ast.IsNot):
      return z3.Not(identical(a, b, cx))
    if isinstance(op, ast.In):
      return self.contains(b, a, cx)
    if isinstance(op, ast.NotIn):
      return z3.Not(self.contains(b, a, cx))
    if isinstance(a, VInt) and isinstance(b, VInt):
      return {ast.Lt: a.t < b.t, ast.LtE: a.t <= b.t, ast.Gt: a.t > b.t, ast.GtE: a.t >= b.t}[type(op)]
    ua, ub = to_u(a, cx), to_u(b, cx)
    if isinstance(op, ast.Lt):
      return lt_u(ua, ub)
    if isinstance(op, ast.Gt):
      return lt_u(ub, ua)
    if isinstance(op, ast.LtE):
      return z3.Or(lt_u(ua, ub), ua == ub)
    if isinstance(op, ast.GtE):
      return z3.Or(lt_u(ub, ua), ua == ub)
    raise SpecError('compare op')

  def eq_values(self, a, b, cx):
    return values_equal(a, b, cx, self.world)

  def contains(self, container, x, cx):
    if isinstance(container, VTuple):
      return z3.Or([self.eq_values(x, it, cx) for it in container.items] or [z3.BoolVal(False)])
    if isinstance(container, VStr) and isinstance(x, VStr):
      return z3.Contains(container.t, x.t)
    return as_setpred(container, cx)(to_u(x, cx))

  def sv_BinOp(self, n, cx):
    a, b = self.sv(n.left, cx), self.sv(n.right, cx)
    return self.binop(n.op, a, b, cx, spec=True)

  def set_binop(self, op, a, b, cx):
    pa, pb = as_setpred(a, cx), as_setpred(b, cx)
    if isinstance(op, ast.BitOr):
      return VSetExpr(lambda e: z3.Or(pa(e), pb(e)))
    if isinstance(op, ast.BitAnd):
      return VSetExpr(lambda e: z3.And(pa(e), pb(e)))
    if isinstance(op, ast.Sub):
      return VSetExpr(lambda e: z3.And(pa(e), z3.Not(pb(e))))
    raise SpecError('set operator')

  def sv_SetComp(self, n, cx):
    return self.spec_setcomp(n, cx)

  def spec_setcomp(self, n, cx):
    if len(n.generators) != 1:
      raise SpecError('one generator only')
    g = n.generators[0]
    src = as_setpred(self.sv(g.iter, cx), cx)
    if not isinstance(g.target, ast.Name):
      raise SpecError('simple comprehension target only')
    ety = elem_type(self.sv(g.iter, cx))
    identity = isinstance(n.elt, ast.Name) and n.elt.id == g.target.id

    def cond(x):
      c2 = cx.bind(g.target.id, from_u(x, ety, cx))
      cs = [src(x)] + [truthy(self.sv(i, c2), c2) for i in g.ifs]
      return z3.And(cs), c2
    if identity:
      return VSetExpr(lambda e: cond(e)[0], Ty('set', (ety,)))

    def pred(e):
      x = z3.Const(fresh_name('c'), U)
      c, c2 = cond(x)
      return ExistsT([x], z3.And(c, to_u(self.sv(n.elt, c2), c2) == e))
    return VSetExpr(pred)

  def quant_gen(self, gen, cx, universal):
    """all(P for x in S if c) / any(...)."""
    if len(gen.generators) != 1:
      raise SpecError('one generator only')
    g = gen.generators[0]
    it = self.sv(g.iter, cx) if not isinstance(cx, ops.State) else None
    return self._quant_over(it, g, gen.elt, cx, universal)

  def _quant_over(self, it, g, elt, cx, universal):
    if isinstance(it, VTuple):
      parts = []
      for item in it.items:
        c2 = self.bind_target(g.target, item, cx)
        guard = [truthy(self.sv(i, c2), c2) for i in g.ifs]
        body = truthy(self.sv(elt, c2), c2)
        parts.append(z3.Implies(z3.And(guard), body) if universal else z3.And(guard + [body]))
      return VBool(z3.And(parts) if universal else z3.Or(parts))
    if isinstance(it, VRef) and it.ty.kind in ('list', 'vtuple') and not isinstance(g.target, ast.Name):
      raise SpecError('destructuring over list in spec')
    src = as_setpred(it, cx)
    ety = elem_type(it)
    x = z3.Const(fresh_name('q'), U)
    c2 = self.bind_target(g.target, from_u(x, ety, cx), cx)
    guard = [src(x)] + [truthy(self.sv(i, c2), c2) for i in g.ifs]
    body = truthy(self.sv(elt, c2), c2)
    if universal:
      return VBool(ForAllT([x], z3.Implies(z3.And(guard), body)))
    return VBool(ExistsT([x], z3.And(guard + [body])))

  def bind_target(self, target, v, cx):
    if isinstance(target, ast.Name):
      return cx.bind(target.id, v)
    if isinstance(target, ast.Tuple) and isinstance(v, VTuple) and len(v.items) == len(target.elts):
      for t, it in zip(target.elts, v.items):
        cx = self.bind_target(t, it, cx)
      return cx
    raise SpecError('cannot bind target')

  def sv_Call(self, n, cx):
    f = n.func
    if isinstance(f, ast.Name):
      name = f.id
      h = getattr(self, 'spec_fn_' + name, None)
      if h is not None and name not in cx.env:
        return h(n, cx)
      if name in self.world.macros and name not in cx.env:
        return self.expand_macro(name, [self.sv(a, cx) for a in n.args], cx)
      if name in self.world.pure and name not in cx.env:
        # a ghost (specification-only) function declared in the sidecar: uninterpreted, heap-independent
        return self.pure_app(name, [self.sv(a, cx) for a in n.args], self.world.pure[name], cx)
    if isinstance(f, ast.Attribute):
      base = self.sv(f.value, cx)
      args = [self.sv(a, cx) for a in n.args]
      if isinstance(base, VGlobal) and n.keywords:
        # keyword arguments of a pure function: appended in sorted order (as at executed call sites)
        kws = {k.arg: self.sv(k.value, cx) for k in n.keywords}
        args = args + [kws[k] for k in sorted(kws)]
      return self.spec_method(base, f.attr, args, cx, n)
    fv = self.sv(f, cx)
    args = [self.sv(a, cx) for a in n.args]
    if isinstance(fv, VGlobal):
      return self.spec_global_call(fv.path, args, cx)
    if isinstance(fv, VBuiltin):
      if fv.name in ('str', 'repr') and len(args) == 1:
        # same symbol as the executed builtin (builtins_model.bi_str / bi_repr)
        return args[0] if isinstance(args[0], VStr) and fv.name == 'str' else self.pure_app(fv.name, args, 'str', cx)
      return self.spec_global_call('builtins.' + fv.name, args, cx)
    raise SpecError('spec call to %s' % ast.dump(f))

  def spec_global_call(self, path, args, cx):
    rt = self.pure_ret_type(path)
    if rt is None:
      c = self.world.contracts.get(path)
      if (getattr(self, 'comp_calls', None) is not None and c is not None and c.mode != 'event'
          and c.modifies == [] and not c.requires and not c.raises and not c.abstract):
        return self.comp_contract_call(c, path, args, cx)
      raise SpecError('function %s is not declared pure' % path)
    return self.pure_app(path, args, rt, cx)

  def comp_contract_call(self, c, path, args, cx):
    """A call, inside a comprehension element, of a function under a total, frame-free contract
    (no requires, no raises, modifies nothing): its result is a function of the arguments in the heap
    the comprehension is evaluated in (one fresh function symbol per comprehension evaluation), and the
    callee's ensures are collected as side conditions that comp_to_seq assumes for every index."""
    rty = parse_type(c.types.get('return', c.returns or 'Any'))
    key = (path, len(args))
    if key not in self.comp_calls:
      self.comp_calls[key] = ufn(fresh_name('cpure!' + path), *([U] * len(args) + [sort_of(rty)]))
    t = self.comp_calls[key](*[to_u(a, cx) for a in args])
    if sort_of(rty) == B:
      result = VBool(t)
    elif sort_of(rty) == I:
      result = VInt(t)
    elif sort_of(rty) == S:
      result = VStr(t)
    else:
      result = VRef(t, rty)
    if self.comp_side is not None:
      node = self.contract_node(c)
      names = [a.arg for a in node.args.posonlyargs + node.args.args]
      if len(names) != len(args):
        raise SpecError('comprehension call of %s: positional arguments only' % path)
      env = dict(zip(names, args))
      modinfo = self.world.module(c.module)
      oldcx = SpecCtx(env, cx.heap, cx.pc, None, modinfo)
      env2 = dict(env)
      env2['result'] = result
      post = SpecCtx(env2, cx.heap, cx.pc, oldcx, modinfo)
      self.spec_contract_stack.append(c)
      try:
        for e in c.ensures:
          self.comp_side.append(self.spec_bool(e, post))
      finally:
        self.spec_contract_stack.pop()
    return result

  def spec_method(self, base, meth, args, cx, n):
    if isinstance(base, VGlobal):
      return self.spec_global_call(base.path + '.' + meth, args, cx)
    if isinstance(base, VRef):
      k = base.ty.kind
      if k == 'dict' and meth == 'keys':
        return VSetExpr(lambda e: heap_of(base, cx).dom(base.t, e), Ty('set', (base.ty.args[0],)))
      if k == 'dict' and meth == 'get' and len(args) == 2:
        vt = base.ty.args[1] if len(base.ty.args) > 1 else ANY
        ku = to_u(args[0], cx)
        return ite_val(heap_of(base, cx).dom(base.t, ku), from_u(heap_of(base, cx).val(base.t, ku), vt, cx), args[1], cx)
      if k == 'obj' or k == 'any':
        cls = base.ty.name if k == 'obj' else None
        q = self.world.find_method(cls, meth) if cls else None
        path = q or ('method.' + meth)
        rt = self.pure_ret_type(path) or self.pure_ret_type('method.' + meth)
        if rt is None:
          raise SpecError('method %s not declared pure' % path)
        return self.pure_app('method.' + meth, [base] + args, rt, cx)
    if isinstance(base, VStr):
      if meth == 'startswith' and isinstance(args[0], VStr):
        return VBool(z3.PrefixOf(args[0].t, base.t))
      if meth == 'endswith' and isinstance(args[0], VStr):
        return VBool(z3.SuffixOf(args[0].t, base.t))
    raise SpecError('spec method %s on %r' % (meth, base))

  def expand_macro(self, name, args, cx):
    params, body = self.world.macros[name]
    if len(params) != len(args):
      raise SpecError('macro %s arity' % name)
    c2 = cx
    for p_, a in zip(params, args):
      c2 = c2.bind(p_, a)
    return self.sv(parse_spec(body), c2)

  # ---- spec built-ins

  def _quant(self, n, cx, universal):
    lam = n.args[0]
    if not isinstance(lam, ast.Lambda):
      raise SpecError('forall/exists need a lambda')
    tstrs = [self.const_str(a) for a in n.args[1:]]
    # "Cls@now": range over the objects that exist in the state the formula is evaluated in (default:
    # the objects that existed in the pre-state), for invariants of code whose callees may allocate
    now = [t.endswith('@now') for t in tstrs]
    tys = [parse_type(t[:-4] if t.endswith('@now') else t) for t in tstrs]
    names = [a.arg for a in lam.args.args]
    consts = []
    c2 = cx
    guards = []
    for i, nm in enumerate(names):
      ty = tys[i] if i < len(tys) else ANY
      srt = sort_of(ty)
      c = z3.Const(fresh_name(nm), srt)
      consts.append(c)
      if srt == U:
        v = VRef(c, ty)
        if ty.kind == 'obj':
          guards.append(subcls(typeof(c), cls_const(ty.name)))
          guards.append(c != NONE)
          # typed quantifiers range over the objects that existed in the pre-state
          guards.append((cx.old.heap if cx.old is not None and not (i < len(now) and now[i]) else cx.heap).alloc(c))
      elif srt == I:
        v = VInt(c)
      elif srt == B:
        v = VBool(c)
      else:
        v = VStr(c)
      c2 = c2.bind(nm, v)
    body, side = self.under_binder(lam.body, c2)
    guards = guards + side
    if universal:
      return VBool(ForAllT(consts, z3.Implies(z3.And(guards), body) if guards else body))
    return VBool(ExistsT(consts, z3.And(guards + [body])))

  def under_binder(self, body_node, c2):
    """Evaluate a quantifier body; heap well-formedness facts about terms that mention the bound
    variables are collected and returned as guards instead of leaking into the path condition."""
    saved = c2.pc
    local = []
    c2.pc = local
    if c2.old is not None:
      c2.old.pc = local
    if c2.pre is not None:
      c2.pre.pc = local
    try:
      body = truthy(self.sv(body_node, c2), c2)
    finally:
      c2.pc = saved
      if c2.old is not None:
        c2.old.pc = saved
      if c2.pre is not None:
        c2.pre.pc = saved
    return body, local

  def const_str(self, node):
    if isinstance(node, ast.Constant) and isinstance(node.value, str):
      return node.value
    raise SpecError('expected a string literal')

  def spec_fn_forall(self, n, cx):
    return self._quant(n, cx, True)

  def spec_fn_exists(self, n, cx):
    return self._quant(n, cx, False)

  def spec_fn_implies(self, n, cx):
    a = truthy(self.sv(n.args[0], cx), cx)
    if z3.is_false(z3.simplify(a)):
      return VBool(True)            # the consequent may be undefined when the antecedent is statically false
    try:
      b = truthy(self.sv(n.args[1], cx), cx)
    except SpecUndefined:
      b = z3.BoolVal(False)         # an undefined consequent is false: the implication holds only if a is false
    return VBool(z3.Implies(a, b))

  def spec_fn_iff(self, n, cx):
    a, b = [truthy(self.sv(x, cx), cx) for x in n.args]
    return VBool(a == b)

  def spec_fn_old(self, n, cx):
    if cx.old is None:
      raise SpecError('old() outside a two-state context')
    v = self.sv(n.args[0], cx.old)
    if isinstance(v, VRef) and not isinstance(v, VOldRef) and (
        v.ty.kind in ('set', 'dict', 'list', 'vtuple')
        or (v.ty.kind == 'opt' and v.ty.args and v.ty.args[0].kind in ('set', 'dict', 'list', 'vtuple'))):
      return VOldRef(v.t, v.ty, cx.old.heap)
    return v

  def spec_fn_seteq(self, n, cx):
    a, b = [self.sv(x, cx) for x in n.args]
    return VBool(ops.seteq_formula(a, b, cx))

  def spec_fn_subset(self, n, cx):
    a, b = [as_setpred(self.sv(x, cx), cx) for x in n.args]
    x = z3.Const(fresh_name('x'), U)
    return VBool(ForAllT([x], z3.Implies(a(x), b(x))))

  def spec_fn_disjoint(self, n, cx):
    a, b = [as_setpred(self.sv(x, cx), cx) for x in n.args]
    x = z3.Const(fresh_name('x'), U)
    return VBool(ForAllT([x], z3.Not(z3.And(a(x), b(x)))))

  def spec_fn_isempty(self, n, cx):
    a = as_setpred(self.sv(n.args[0], cx), cx)
    x = z3.Const(fresh_name('x'), U)
    return VBool(ForAllT([x], z3.Not(a(x))))

  def spec_fn_len(self, n, cx):
    v = self.sv(n.args[0], cx)
    return self.len_of(v, cx)

  def spec_fn_fresh(self, n, cx):
    v = self.sv(n.args[0], cx)
    if cx.old is None:
      raise SpecError('fresh() outside a two-state context')
    return VBool(z3.Not(cx.old.heap.alloc(to_u(v, cx))))

  def spec_fn_allocated(self, n, cx):
    v = self.sv(n.args[0], cx)
    return VBool(cx.heap.alloc(to_u(v, cx)))

  def spec_fn_isinstance(self, n, cx):
    v = self.sv(n.args[0], cx)
    return VBool(self.isinstance_formula(v, n.args[1], cx))

  def spec_fn_all(self, n, cx):
    return self._allany(n, cx, True)

  def spec_fn_any(self, n, cx):
    return self._allany(n, cx, False)

  def _allany(self, n, cx, universal):
    g = n.args[0]
    if not isinstance(g, (ast.GeneratorExp, ast.ListComp, ast.SetComp)):
      raise SpecError('all/any need a generator')
    gen = g.generators[0]
    it = self.sv(gen.iter, cx)
    return self._quant_over(it, gen, g.elt, cx, universal)

  def spec_fn_set(self, n, cx):
    if not n.args:
      return VSetExpr(lambda e: z3.BoolVal(False))
    return self._spec_setof(n, cx)

  spec_fn_frozenset = spec_fn_set

  def _spec_setof(self, n, cx):
    a = n.args[0]
    if isinstance(a, (ast.GeneratorExp, ast.ListComp, ast.SetComp)):
      return self.spec_setcomp(a, cx)
    v = self.sv(a, cx)
    return VSetExpr(as_setpred(v, cx), Ty('set', (elem_type(v),)))

  def spec_fn_keys(self, n, cx):
    d = self.sv(n.args[0], cx)
    return VSetExpr(lambda e: heap_of(d, cx).dom(d.t, e))

  def spec_fn_truthy(self, n, cx):
    return VBool(truthy(self.sv(n.args[0], cx), cx))

  def spec_fn_bool(self, n, cx):
    return VBool(truthy(self.sv(n.args[0], cx), cx))

  def spec_fn_hash(self, n, cx):
    return VInt(self.hash_of(self.sv(n.args[0], cx), cx))

  def spec_fn_typeis(self, n, cx):
    v = self.sv(n.args[0], cx)
    return VBool(typeof(to_u(v, cx)) == cls_const(self.const_str(n.args[1])))

  def spec_fn_tuple(self, n, cx):
    if not n.args:
      return VTuple([])
    v = self.sv(n.args[0], cx)
    if isinstance(v, VTuple):
      return v
    raise SpecError('tuple() in spec')

  def spec_fn_same(self, n, cx):
    """same(a, b): identical objects / equal U terms."""
    a, b = [self.sv(x, cx) for x in n.args]
    return VBool(to_u(a, cx) == to_u(b, cx))

  def spec_fn_hasattr(self, n, cx):
    o = self.sv(n.args[0], cx)
    name = self.const_str(n.args[1])
    return VBool(cx.heap.fld('has!' + name, B)(to_u(o, cx)))

  def spec_fn_unchanged(self, n, cx):
    """unchanged(e): e denotes the same object now and in the old state, with the same contents."""
    if cx.old is None:
      raise SpecError('unchanged() outside a two-state context')
    now, old = self.sv(n.args[0], cx), self.sv(n.args[0], cx.old)
    if not (isinstance(now, VRef) and isinstance(old, VRef)):
      return VBool(self.eq_values(now, old, cx))
    h1, h0 = cx.heap, cx.old.heap
    conj = [now.t == old.t]
    k = now.ty.kind
    e = z3.Const(fresh_name('u'), U)
    i = z3.Const(fresh_name('ui'), I)
    if k == 'set':
      conj.append(ForAllT([e], h1.mem(now.t, e) == h0.mem(now.t, e)))
    elif k in ('list', 'vtuple'):
      conj.append(h1.len(now.t) == h0.len(now.t))
      conj.append(ForAllT([i], z3.Implies(z3.And(i >= 0, i < h0.len(now.t)),
                                           h1.item(now.t, i) == h0.item(now.t, i))))
    elif k == 'dict':
      conj.append(ForAllT([e], h1.dom(now.t, e) == h0.dom(now.t, e)))
      conj.append(ForAllT([e], z3.Implies(h0.dom(now.t, e), h1.val(now.t, e) == h0.val(now.t, e))))
    return VBool(z3.And(conj))

  def spec_fn_distinct(self, n, cx):
    """distinct(seq): no element occurs twice."""
    v = self.sv(n.args[0], cx)
    if isinstance(v, VTuple):
      us = [to_u(x, cx) for x in v.items]
      return VBool(z3.Distinct(*us) if len(us) > 1 else z3.BoolVal(True))
    h = cx.heap
    i = z3.Const(fresh_name('di'), I)
    j = z3.Const(fresh_name('dj'), I)
    return VBool(ForAllT([i, j], z3.Implies(z3.And(i >= 0, i < j, j < h.len(v.t)),
                                            h.item(v.t, i) != h.item(v.t, j))))

  def spec_fn_setvalue(self, n, cx):
    v = self.sv(n.args[0], cx)
    return VRef(ufn('set_value', U, U)(to_u(v, cx)), ANY)

  def spec_fn_card(self, n, cx):
    v = self.sv(n.args[0], cx)
    return VInt(cx.heap.get('card')(to_u(v, cx)))

  # ---- shared helpers

  def len_of(self, v, cx):
    if isinstance(v, VTuple):
      return VInt(len(v.items))
    if isinstance(v, VStr):
      return VInt(z3.Length(v.t))
    if isinstance(v, VRef):
      if v.ty.kind in ('list', 'vtuple'):
        return VInt(heap_of(v, cx).len(v.t))
      if v.ty.kind in ('set', 'dict'):
        return VInt(heap_of(v, cx).get('card')(v.t))
    raise SpecError('len of %r' % (v,))

  def hash_of(self, v, cx):
    return hash_u(self.value_key(v, cx))

  def value_key(self, v, cx):
    """U term that is equal for equal *values* (used for hash)."""
    if isinstance(v, VTuple):
      us = [self.value_key(x, cx) for x in v.items]
      return tup_ctor(len(us))(*us) if us else z3.Const('tup0', U)
    if isinstance(v, VRef) and v.ty.kind == 'set':
      return ufn('set_value', U, U)(v.t)   # abstract value of an (immutable) set
    return to_u(v, cx)

  def pure_app(self, path, args, rt, cx):
    if isinstance(rt, str) and rt.startswith('new:'):
      # a factory: returns a freshly allocated object of the named class (exec mode only)
      if not isinstance(cx, ops.State):
        raise SpecError('factory %s used in a specification' % path)
      return ops.alloc_obj(cx, Ty('obj', (), rt[4:]), rt[4:].lower())
    us = [to_u(a, cx) for a in args]
    rty = parse_type(rt)
    f = ufn('pure!' + path, *([U] * len(us) + [sort_of(rty)]))
    t = f(*us)
    if sort_of(rty) == B:
      return VBool(t)
    if sort_of(rty) == I:
      return VInt(t)
    if sort_of(rty) == S:
      return VStr(t)
    if rty.kind == 'tuple':
      return from_u(t, rty, cx)
    # a pure lookup cannot allocate: whatever it returns existed when the function was entered
    # (global axiom, one per pure function, added to every obligation of this run)
    ecx = getattr(self, 'entry_cx', None)
    key = (path, len(us))
    if ecx is not None and key not in self.pure_axiomatised:
      self.pure_axiomatised.add(key)
      if us:
        vs = [z3.Const(fresh_name('pa'), U) for _ in us]
        self.axioms.append(ForAllT(vs, ecx.heap.alloc(f(*vs))))
      else:
        self.axioms.append(ecx.heap.alloc(f()))
    if ecx is not None and getattr(self, 'mode', 'vc') != 'event':
      mark_entry(t)
    return VRef(t, rty)

  def pure_ret_type(self, path):
    c = self.contract
    if c is not None and path in c.pure:
      return c.pure[path]
    return self.world.pure.get(path)

  def isinstance_formula(self, v, cls_node, cx):
    names = []
    if isinstance(cls_node, ast.Tuple):
      for e in cls_node.elts:
        names.append(self.class_name_of(e, cx))
    else:
      names.append(self.class_name_of(cls_node, cx))
    return z3.Or([self.isinstance_one(v, nm, cx) for nm in names])

  def class_name_of(self, node, cx):
    if isinstance(node, ast.Name):
      mod = getattr(getattr(self, 'cur_mod', None), 'name', None)
      if mod is not None:
        # a class of the current module declared in the sidecar under another name (pyname)
        return self.world.class_for(mod, node.id)
      return node.id
    if isinstance(node, ast.Attribute):
      return node.attr
    if isinstance(node, ast.Constant) and isinstance(node.value, str):
      return node.value
    raise Unsupported('class expression')

  _PRIM = {'bool': VBool, 'int': VInt, 'str': VStr}
  _KIND_CLASSES = {'set': ('set', 'frozenset', 'WeakSet'), 'dict': ('dict',), 'list': ('list',),
                   'vtuple': ('tuple',)}

  def isinstance_one(self, v, name, cx):
    if isinstance(v, VBool):
      return z3.BoolVal(name in ('bool', 'int', 'object'))
    if isinstance(v, VInt):
      return z3.BoolVal(name in ('int', 'object'))
    if isinstance(v, VStr):
      return z3.BoolVal(name in ('str', 'object'))
    if v is VNone:
      return z3.BoolVal(name in ('NoneType', 'object'))
    if isinstance(v, VTuple):
      return z3.BoolVal(name in ('tuple', 'object'))
    if isinstance(v, (VFunc, VGlobal, VBuiltin, VBound)):
      if name in ('object',):
        return z3.BoolVal(True)
      return subcls(typeof(to_u(v, cx)), cls_const(name))
    if isinstance(v, VRef):
      k = v.ty.kind
      if k in self._KIND_CLASSES:
        if name in self._KIND_CLASSES[k]:
          if k == 'set' and name != 'set':
            return subcls(typeof(v.t), cls_const(name))
          return z3.BoolVal(True) if k != 'set' else subcls(typeof(v.t), cls_const(name))
        if name in self.world.classes or name in ('str', 'int', 'bool', 'NoneType'):
          return z3.BoolVal(False)
      if k == 'obj':
        if name in self.world.supers(v.ty.name):
          return z3.BoolVal(True)
        if name in ('str', 'int', 'bool', 'tuple', 'list', 'set', 'dict', 'frozenset', 'NoneType'):
          return z3.BoolVal(False)
      return subcls(typeof(v.t), cls_const(name))
    raise Unsupported('isinstance on %r' % (v,))


def const_val(c):
  if c is None:
    return VNone
  if isinstance(c, bool):
    return VBool(c)
  if isinstance(c, int):
    return VInt(c)
  if isinstance(c, str):
    return VStr(c)
  raise Unsupported('constant %r' % (c,))


def elem_type(v):
  if isinstance(v, VRef):
    if v.ty.kind in ('set', 'list', 'vtuple', 'dict') and v.ty.args:
      return v.ty.args[0]
  if isinstance(v, VSetExpr) and v.ty.kind == 'set':
    return v.ty.elem
  return ANY


def ite_val(c, a, b, cx):
  if isinstance(a, VBool) and isinstance(b, VBool):
    return VBool(z3.If(c, a.t, b.t))
  if isinstance(a, VInt) and isinstance(b, VInt):
    return VInt(z3.If(c, a.t, b.t))
  if isinstance(a, VStr) and isinstance(b, VStr):
    return VStr(z3.If(c, a.t, b.t))
  if isinstance(a, VTuple) and isinstance(b, VTuple) and len(a.items) == len(b.items):
    return VTuple([ite_val(c, x, y, cx) for x, y in zip(a.items, b.items)])
  ty = a.ty if isinstance(a, VRef) else (b.ty if isinstance(b, VRef) else ANY)
  if isinstance(a, VRef) and isinstance(b, VRef) and a.ty != b.ty:
    ty = ANY
  return VRef(z3.If(c, to_u(a, cx), to_u(b, cx)), ty)
