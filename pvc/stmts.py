"""Statement execution: assignments, control flow, loops with invariants, try/with."""
import ast
import z3

from pvc.core import *  # noqa: F401,F403
from pvc import ops
from pvc.ops import to_u, from_u, truthy, as_setpred, note_alloc, Event
from pvc.spec_eval import SpecCtx, elem_type

MUTATORS = {'add', 'update', 'append', 'pop', 'remove', 'discard', 'extend', 'clear', 'insert',
            'difference_update', 'setdefault', 'popitem'}


def loop_nodes(fnode):
  """Loops of a function in source order, not descending into nested defs/lambdas."""
  out = []

  def walk(stmts):
    for s in stmts:
      if isinstance(s, (ast.FunctionDef, ast.AsyncFunctionDef, ast.ClassDef)):
        continue
      if isinstance(s, (ast.For, ast.While)):
        out.append(s)
      for fld in ('body', 'orelse', 'finalbody'):
        sub = getattr(s, fld, None)
        if isinstance(sub, list) and sub and isinstance(sub[0], ast.stmt):
          walk(sub)
      for h in getattr(s, 'handlers', []) or []:
        walk(h.body)
  walk(fnode.body)
  return out


def assigned_names(stmts):
  out = set()
  for s in stmts:
    for n in ast.walk(s):
      if isinstance(n, ast.Name) and isinstance(n.ctx, (ast.Store, ast.Del)):
        out.add(n.id)
      elif isinstance(n, (ast.FunctionDef, ast.ClassDef)):
        out.add(n.name)
  return out


class StmtMixin(object):

  def exec_block(self, stmts, st):
    if not stmts:
      yield 'normal', st, None
      return
    for kind, st1, v in self.exec_stmt(stmts[0], st):
      if kind == 'normal':
        yield from self.exec_block(stmts[1:], st1)
      else:
        yield kind, st1, v

  def exec_stmt(self, s, st):
    m = getattr(self, 'st_' + type(s).__name__, None)
    if m is None:
      raise Unsupported('statement %s' % type(s).__name__)
    self.path_budget()
    return m(s, st)

  def path_budget(self):
    self.steps += 1
    if self.steps > self.max_steps:
      raise Unsupported('path budget exceeded (%d statement executions)' % self.max_steps)

  # ---------------------------------------------------------------- simple statements

  def st_Pass(self, s, st):
    yield 'normal', st, None

  def st_Global(self, s, st):
    yield 'normal', st, None

  st_Nonlocal = st_Global

  def st_Expr(self, s, st):
    if isinstance(s.value, ast.Constant):   # docstring
      yield 'normal', st, None
      return
    for st1, v in self.ev(s.value, st):
      if isinstance(v, Exc):
        yield 'raise', st1, v
      else:
        yield 'normal', st1, None

  def st_Return(self, s, st):
    if s.value is None:
      yield 'return', st, VNone
      return
    for st1, v in self.ev(s.value, st):
      yield ('raise' if isinstance(v, Exc) else 'return'), st1, v

  def st_Delete(self, s, st):
    for t in s.targets:
      if isinstance(t, ast.Name):
        st.env.pop(t.id, None)
      elif isinstance(t, ast.Tuple) and all(isinstance(e, ast.Name) for e in t.elts):
        for e in t.elts:
          st.env.pop(e.id, None)
      elif isinstance(t, ast.Subscript):
        outs = list(self.ev_many([t.value, t.slice], st))
        if len(outs) != 1 or isinstance(outs[0][1], Exc):
          raise Unsupported('del with forking operands')
        st, (base, idx) = outs[0]
        if not (isinstance(base, VRef) and base.ty.kind == 'dict'):
          raise Unsupported('del on %r' % (base,))
        ku = to_u(idx, st)
        for st2, ok in self.fork(st, st.heap.dom(base.t, ku)):
          if ok:
            ops.dict_del(st2, base.t, ku)
            yield 'normal', st2, None
          else:
            yield 'raise', st2, Exc('KeyError')
        return
      else:
        raise Unsupported('del target')
    yield 'normal', st, None

  def st_Assert(self, s, st):
    for st1, v in self.ev(s.test, st):
      if isinstance(v, Exc):
        yield 'raise', st1, v
        continue
      t = truthy(v, st1)
      if self.assert_mode == 'prove':
        self.oblige('assert@L%d' % (s.lineno - self.base_line), st1, t, detail=ast.unparse(s.test))
        yield 'normal', st1, None
      else:
        for st2, ok in self.fork(st1, t):
          if ok:
            yield 'normal', st2, None
          else:
            yield 'raise', st2, Exc('AssertionError')

  def st_Raise(self, s, st):
    if s.exc is None:
      cur = st.ghost.get('handling')
      if cur is None:
        raise Unsupported('bare raise outside handler')
      yield 'raise', st, cur
      return
    for st1, v in self.ev(s.exc, st):
      if isinstance(v, Exc):
        yield 'raise', st1, v
        continue
      yield 'raise', st1, self.exc_of_value(v, st1)

  def exc_of_value(self, v, st):
    if isinstance(v, VRef) and getattr(v, 'exc', None) is not None:
      return v.exc
    if isinstance(v, VRef) and getattr(v, 'exc_cls', None):
      return Exc(v.exc_cls, payload=v)
    if isinstance(v, VGlobal):
      return Exc(v.path.rsplit('.', 1)[-1])
    if isinstance(v, VBuiltin):
      return Exc(v.name)
    if isinstance(v, VRef) and v.ty.kind == 'obj':
      return Exc(v.ty.name, payload=v)
    if isinstance(v, VRef):
      return Exc('OpaqueException', payload=v)
    raise Unsupported('raise of %r' % (v,))

  def st_FunctionDef(self, s, st):
    if s.decorator_list:
      raise Unsupported('decorated nested function')
    f = VFunc(s, st.env, self.cur_mod, s.name)
    f.home_depth = self.inline_depth
    st.env[s.name] = f
    # closures capture the environment by reference: share the dict so later writes are seen
    f.env = st.env
    yield 'normal', st, None

  # ---------------------------------------------------------------- assignment

  def st_Assign(self, s, st):
    for st1, v in self.ev(s.value, st):
      if isinstance(v, Exc):
        yield 'raise', st1, v
        continue
      outs = [('normal', st1, None)]
      for t in s.targets:
        nxt = []
        for kind, st2, x in outs:
          if kind != 'normal':
            nxt.append((kind, st2, x))
          else:
            nxt.extend(self.assign(t, v, st2))
        outs = nxt
      yield from outs

  def st_AnnAssign(self, s, st):
    if s.value is None:
      yield 'normal', st, None
      return
    for st1, v in self.ev(s.value, st):
      if isinstance(v, Exc):
        yield 'raise', st1, v
      else:
        yield from self.assign(s.target, v, st1)

  def assign(self, t, v, st):
    if isinstance(t, ast.Name):
      lt = self.contract.locals_.get(t.id) if self.contract is not None and self.inline_depth == 0 else None
      if lt is not None and isinstance(v, VRef) and v.ty.kind in ('any', 'opt', 'union'):
        v = from_u(v.t, parse_type(lt), st)   # declared type of a local (sidecar): dispatch hint only
        ops.assume_type(v, st)
      st.env[t.id] = v
      yield 'normal', st, None
    elif isinstance(t, (ast.Tuple, ast.List)):
      items = self.unpack(v, len(t.elts), st)
      if isinstance(items, Exc):
        yield 'raise', st, items
        return
      outs = [('normal', st, None)]
      for sub, item in zip(t.elts, items):
        nxt = []
        for kind, st2, x in outs:
          if kind != 'normal':
            nxt.append((kind, st2, x))
          else:
            nxt.extend(self.assign(sub, item, st2))
        outs = nxt
      yield from outs
    elif isinstance(t, ast.Attribute):
      for st1, base in self.ev(t.value, st):
        if isinstance(base, Exc):
          yield 'raise', st1, base
          continue
        self.store_attr(base, t.attr, v, st1)
        yield 'normal', st1, None
    elif isinstance(t, ast.Subscript):
      for st1, vals in self.ev_many([t.value, t.slice], st):
        if isinstance(vals, Exc):
          yield 'raise', st1, vals
          continue
        base, idx = vals
        yield from self.store_subscript(base, idx, v, st1)
    else:
      raise Unsupported('assignment target %s' % type(t).__name__)

  def unpack(self, v, n, st):
    if isinstance(v, VTuple):
      if len(v.items) != n:
        return Exc('ValueError')
      return v.items
    if isinstance(v, VRef) and v.ty.kind in ('list', 'vtuple'):
      # arity is a safety obligation
      self.oblige('unpack-arity', st, st.heap.len(v.t) == n)
      return [from_u(st.heap.item(v.t, z3.IntVal(i)), v.ty.elem, st) for i in range(n)]
    if isinstance(v, VRef) and v.ty.kind == 'tuple':
      return from_u(v.t, v.ty, st).items
    if getattr(self, 'mode', 'vc') == 'event' and isinstance(v, VRef) and v.ty.kind in ('any', 'union', 'opt'):
      # an opaque value: its components are (uninterpreted) functions of it, the same in both programs
      return [VRef(ufn('unpack!%d!%d' % (n, i), U, U)(v.t), ANY) for i in range(n)]
    raise Unsupported('unpacking %r' % (v,))

  def store_attr(self, base, attr, v, st):
    if isinstance(base, VGlobal):
      base = VRef(global_const(base.path), ANY)
    if not isinstance(base, VRef):
      raise Unsupported('attribute store on %r' % (base,))
    cls = base.ty.name if base.ty.kind == 'obj' else None
    fty = self.world.field_type(cls, attr)
    srt = sort_of(fty) if fty is not None else U
    old = st.heap.fld(attr, srt)
    if srt == U:
      nv = to_u(v, st)
    elif srt == B:
      nv = truthy(v, st) if not isinstance(v, VBool) else v.t
      if not isinstance(v, VBool):
        raise Unsupported('bool field %s receives %r' % (attr, v))
    elif srt == I:
      if not isinstance(v, VInt):
        raise Unsupported('int field %s receives %r' % (attr, v))
      nv = v.t
    else:
      if not isinstance(v, VStr):
        raise Unsupported('str field %s receives %r' % (attr, v))
      nv = v.t
    st.heap = st.heap.with_(('fld', attr), upd1(old, base.t, nv))
    if getattr(self, 'mode', 'vc') == 'event' and base.ty.kind in ('any', 'opt', 'union', 'obj', 'callable'):
      # a store into an attribute of an object that outlives the call: an observable effect (object, value, in order)
      st.trace.append(ops.Event('setattr', 'setattr:' + attr, [base.t, to_u(v, st)]))
    oldhas = st.heap.fld('has!' + attr, B)
    st.heap = st.heap.with_(('fld', 'has!' + attr), upd1(oldhas, base.t, z3.BoolVal(True)))

  def store_subscript(self, base, idx, v, st):
    if isinstance(base, VRef) and base.ty.kind == 'dict':
      ops.dict_store(st, base.t, to_u(idx, st), to_u(v, st))
      yield 'normal', st, None
    elif isinstance(base, VRef) and base.ty.kind == 'list':
      if not isinstance(idx, VInt):
        raise Unsupported('list store index')
      n_ = st.heap.len(base.t)
      i = idx.t
      if z3.is_int_value(i) and i.as_long() < 0:
        i = n_ + i
      for st2, ok in self.fork(st, z3.And(i >= 0, i < n_)):
        if ok:
          olditem = st2.heap.get('item')
          u = to_u(v, st2)
          st2.heap = st2.heap.with_('item', lambda x, j, olditem=olditem, i=i, u=u:
                                    z3.If(z3.And(x == base.t, j == i), u, olditem(x, j)))
          yield 'normal', st2, None
        else:
          yield 'raise', st2, Exc('IndexError')
    elif getattr(self, 'mode', 'vc') == 'event' and (isinstance(base, VBound) or isinstance(base, VRef) and base.ty.kind in ('any', 'opt', 'union', 'obj', 'callable')):
      for st2, r in self.call_opaque(VBound(base, '__setitem__'), [idx, v], {}, st):
        if isinstance(r, Exc):
          yield 'raise', st2, r
        else:
          yield 'normal', st2, None
    else:
      raise Unsupported('subscript store on %r' % (base,))

  def st_AugAssign(self, s, st):
    t = s.target
    load = ast.copy_location(_as_load(t), t)
    for st1, vals in self.ev_many([load, s.value], st):
      if isinstance(vals, Exc):
        yield 'raise', st1, vals
        continue
      cur, rhs = vals
      if isinstance(cur, VRef) and cur.ty.kind == 'set' and cur.ty.name != 'frozen' \
          and isinstance(s.op, (ast.BitOr, ast.Sub, ast.BitAnd)):
        p = as_setpred(rhs, st1)
        if isinstance(s.op, ast.BitOr):
          ops.set_update(st1, cur.t, lambda old: (lambda e: z3.Or(old(e), p(e))))
        elif isinstance(s.op, ast.Sub):
          ops.set_update(st1, cur.t, lambda old: (lambda e: z3.And(old(e), z3.Not(p(e)))))
        else:
          ops.set_update(st1, cur.t, lambda old: (lambda e: z3.And(old(e), p(e))))
        yield 'normal', st1, None        # in place: the binding is unchanged
        continue
      if isinstance(cur, VRef) and cur.ty.kind == 'list' and isinstance(s.op, ast.Add):
        for st2, _ in self.list_method(cur, 'extend', [rhs], st1):
          yield 'normal', st2, None
        continue
      if isinstance(cur, VRef) and cur.ty.kind == 'obj':
        opname = {ast.BitOr: '__or__', ast.Sub: '__sub__', ast.Add: '__add__', ast.BitAnd: '__and__'}.get(type(s.op))
        q = self.world.find_method(cur.ty.name, opname) if opname else None
        if q is None:
          raise Unsupported('augmented assignment on %s' % cur.ty.name)
        for st2, r in self.call_qualified(q, [cur, rhs], {}, st1, self_val=cur):
          if isinstance(r, Exc):
            yield 'raise', st2, r
          else:
            yield from self.assign(t, r, st2)
        continue
      yield from self.assign(t, self.binop(s.op, cur, rhs, st1), st1)

  # ---------------------------------------------------------------- if / try / with

  def st_If(self, s, st):
    for st1, c in self.ev(s.test, st):
      if isinstance(c, Exc):
        yield 'raise', st1, c
        continue
      narrowed = self.narrowing(s.test)
      for st2, taken in self.fork(st1, self.truth(c, st1)):
        if narrowed is not None:
          self.apply_narrowing(narrowed, taken, st2)
        yield from self.exec_block(s.body if taken else s.orelse, st2)

  def narrowing(self, test):
    """isinstance(x, C) on a local name: refine the static type tag in each branch."""
    neg = False
    if isinstance(test, ast.UnaryOp) and isinstance(test.op, ast.Not):
      test, neg = test.operand, True
    if isinstance(test, ast.Call) and isinstance(test.func, ast.Name) and test.func.id == 'isinstance' \
        and isinstance(test.args[0], ast.Name):
      c = test.args[1]
      names = [self.class_name_of(e, None) for e in (c.elts if isinstance(c, ast.Tuple) else [c])]
      return test.args[0].id, names, neg
    return None

  def apply_narrowing(self, nar, taken, st):
    name, classes, neg = nar
    v = st.env.get(name)
    if not isinstance(v, VRef) or v.ty.kind not in ('union', 'any', 'opt'):
      return
    alts = list(_union_members(v.ty))
    pos = taken != neg

    def matches(t):
      if t.kind == 'obj':
        return any(c in self.world.supers(t.name) for c in classes)
      return any(c in {'set': ('set', 'frozenset'), 'dict': ('dict',), 'list': ('list',),
                       'vtuple': ('tuple',), 'tuple': ('tuple',), 'str': ('str',), 'int': ('int',),
                       'bool': ('bool', 'int'), 'none': ('NoneType',)}.get(t.kind, ()) for c in classes)
    keep = [t for t in alts if matches(t) == pos]
    if v.ty.kind == 'any' and pos and len(classes) == 1 and classes[0] in self.world.classes:
      keep = [Ty('obj', (), classes[0])]
    if len(keep) == 1:
      nv = from_u(v.t, keep[0], st)
      ops.assume_type(nv, st)
      st.env[name] = nv

  def st_Try(self, s, st):
    self.try_depth += 1
    try:
      body_outs = list(self.exec_block(s.body, st))
    finally:
      self.try_depth -= 1
    for kind, st1, v in body_outs:
      if kind == 'raise':
        handled = False
        for h in s.handlers:
          names = self.handler_classes(h)
          m = self.exc_matches(v, names)
          if m is True:
            handled = True
            yield from self._run_handler(h, v, st1, s)
            break
          if m is None:
            # an opaque exception: whether it is an instance of the handler's classes is a predicate
            # of the exception object (shared by implementation and specification)
            pred = ufn('exc_isa!' + '|'.join(sorted(names)), U, B)(to_u(v.payload, st1))
            s_in = st1.fork()
            s_in.assume(pred)
            if self.feasible(s_in):
              yield from self._run_handler(h, v, s_in, s)
            st1.assume(z3.Not(pred))
            if not self.feasible(st1):
              handled = True
              break
        if not handled:
          yield from self._finally(s, kind, st1, v)
      elif kind == 'normal' and s.orelse:
        for k2, st2, v2 in self.exec_block(s.orelse, st1):
          yield from self._finally(s, k2, st2, v2)
      else:
        yield from self._finally(s, kind, st1, v)

  def handler_classes(self, h):
    if h.type is None:
      return ['BaseException']
    elts = h.type.elts if isinstance(h.type, ast.Tuple) else [h.type]
    return [self.class_name_of(e, None) for e in elts]

  def exc_matches(self, exc, names):
    """True / False / None (unknown)."""
    for nm in names:
      if exc_isa(exc.cls, nm):
        return True
    if exc.cls in ('OpaqueException',):
      # an arbitrary Exception subclass raised by a callback: caught by Exception/BaseException
      # only; for narrower classes the engine would need a type test on the payload
      if any(nm in EXC_PARENTS and nm not in ('Exception', 'BaseException') for nm in names):
        return None
      return False
    return False

  def _run_handler(self, h, exc, st, trynode):
    saved = st.ghost.get('handling')
    st.ghost['handling'] = exc
    if h.name:
      payload = exc.payload if exc.payload is not None else VRef(fresh('exc', U), Ty('obj', (), exc.cls))
      if isinstance(payload, VRef):
        payload.exc = exc
      st.env[h.name] = payload
    for kind, st1, v in self.exec_block(h.body, st):
      st1.ghost['handling'] = saved
      if h.name:
        st1.env.pop(h.name, None)
      yield from self._finally(trynode, kind, st1, v)

  def _finally(self, s, kind, st, v):
    if not s.finalbody:
      yield kind, st, v
      return
    for k2, st2, v2 in self.exec_block(s.finalbody, st):
      if k2 == 'normal':
        yield kind, st2, v
      else:
        yield k2, st2, v2

  def st_With(self, s, st):
    if len(s.items) != 1:
      inner = ast.With(items=s.items[1:], body=s.body)
      ast.copy_location(inner, s)
      s = ast.With(items=s.items[:1], body=[inner])
    item = s.items[0]
    for st1, cm in self.ev(item.context_expr, st):
      if isinstance(cm, Exc):
        yield 'raise', st1, cm
        continue
      for st2, entered in self.call_method(cm, '__enter__', [], {}, st1):
        if isinstance(entered, Exc):
          yield 'raise', st2, entered
          continue
        outs = [('normal', st2, None)]
        if item.optional_vars is not None:
          outs = list(self.assign(item.optional_vars, entered, st2))
        for k0, st3, v0 in outs:
          if k0 != 'normal':
            yield k0, st3, v0
            continue
          self.try_depth += 1
          try:
            with_outs = list(self.exec_block(s.body, st3))
          finally:
            self.try_depth -= 1
          for kind, st4, v in with_outs:
            yield from self._with_exit(cm, kind, st4, v)

  def _with_exit(self, cm, kind, st, v):
    if kind == 'raise':
      def nm(hint):
        if getattr(st, 'event_mode', False):
          # event mode: both programs must agree on the names of what the interpreter supplies
          st.withidx = getattr(st, 'withidx', 0) + 1
          return z3.Const('%s!%s@%d' % (hint, st.seg, st.withidx), U)
        return fresh(hint, U)
      a = VRef(nm('exctype'), ANY)
      args = [a, v.payload if v.payload is not None else VRef(nm('excval'), ANY), VRef(nm('tb'), ANY)]
      st.assume(a.t != NONE)
    else:
      args = [VNone, VNone, VNone]
    for st1, r in self.call_method(cm, '__exit__', args, {}, st):
      if isinstance(r, Exc):
        yield 'raise', st1, r
      elif kind == 'raise':
        for st2, swallow in self.fork(st1, truthy(r, st1)):
          if swallow:
            yield 'normal', st2, None
          else:
            yield 'raise', st2, v
      else:
        yield kind, st1, v

  # ---------------------------------------------------------------- loops

  def loop_spec(self, s):
    key = self.loop_keys.get(id(s))
    c = self.contract
    spec = None
    if c is not None and key is not None:
      spec = c.loops.get(key)
    return key, (spec or {})

  def register_loops(self, fnode, prefix=None):
    for i, l in enumerate(loop_nodes(fnode)):
      self.loop_keys[id(l)] = i if prefix is None else '%s#%d' % (prefix, i)

  def touched_comps(self, stmts, st):
    """Conservative syntactic footprint of a loop body on the heap."""
    comps = set()
    for s in stmts:
      for n in ast.walk(s):
        if isinstance(n, ast.Call):
          if isinstance(n.func, ast.Attribute) and n.func.attr in MUTATORS:
            comps.update(CONTAINER_COMPS)
          elif isinstance(n.func, ast.Name) and n.func.id in ('isinstance', 'len', 'hasattr', 'str', 'all', 'any'):
            pass
          else:
            comps.update(CONTAINER_COMPS)
            comps.add('alloc')
            comps.add('*fields')
        elif isinstance(n, (ast.Set, ast.List, ast.Dict, ast.SetComp, ast.ListComp, ast.DictComp)):
          comps.update(CONTAINER_COMPS)
          comps.add('alloc')
        elif isinstance(n, ast.Subscript) and isinstance(n.ctx, (ast.Store, ast.Del)):
          comps.update(CONTAINER_COMPS)
        elif isinstance(n, ast.Attribute) and isinstance(n.ctx, ast.Store):
          comps.add(('fld', n.attr))
          comps.add(('fld', 'has!' + n.attr))
        elif isinstance(n, ast.AugAssign):
          comps.update(CONTAINER_COMPS)
          comps.add('alloc')
        elif isinstance(n, ast.BinOp) and isinstance(n.op, (ast.BitOr, ast.BitAnd, ast.Sub, ast.Add)):
          comps.update(CONTAINER_COMPS)
          comps.add('alloc')
    if '*fields' in comps:
      comps.discard('*fields')
      comps.update(nm for nm in st.heap.names() if isinstance(nm, tuple))
    return comps

  def loop_havoc(self, st, body, spec, extra_names=()):
    entry_env = dict(st.env)
    entry_heap = st.heap
    names = assigned_names(body) | set(extra_names)
    ltypes = dict(getattr(self.contract, 'locals_', {}) or {})
    ltypes.update(spec.get('types', {}))
    for nm in sorted(names):
      cur = st.env.get(nm)
      if nm in ltypes:
        ty = parse_type(ltypes[nm])
      elif isinstance(cur, VRef):
        ty = cur.ty
      elif isinstance(cur, VBool):
        ty = TBOOL
      elif isinstance(cur, VInt):
        ty = TINT
      elif isinstance(cur, VStr):
        ty = TSTR
      elif isinstance(cur, VTuple):
        ty = Ty('tuple', tuple(_ty_from_val(x) for x in cur.items))
      elif isinstance(cur, VFunc):
        continue
      elif cur is None:
        st.env.pop(nm, None)
        continue
      else:
        ty = ANY
      st.env[nm] = ops.fresh_val(ty, nm, st)
    if 'modifies' in spec:
      cx = SpecCtx(entry_env, entry_heap, st.pc, None, self.cur_mod)
      self.havoc_frame(st, spec['modifies'], cx)
    else:
      comps = self.touched_comps(body, st)
      if comps:
        st.heap = st.heap.havoc(sorted(comps, key=str))
        if 'alloc' in comps:
          o = z3.Const(fresh_name('o'), U)
          st.assume(ForAllT([o], z3.Implies(entry_heap.alloc(o), st.heap.alloc(o))))
    ops.heap_wf(st, st.heap, getattr(self, 'ref_fields', ()), getattr(self, 'field_kinds', None), getattr(self, 'value_kinds', None))
    self.private_unreferenced(st)
    # re-establish well-typedness facts for havocked references
    for nm in names:
      v = st.env.get(nm)
      if isinstance(v, VRef):
        ops.assume_type(v, st)
        if v.ty.kind in ('set', 'dict', 'list', 'obj'):
          st.assume(st.heap.alloc(v.t))
    return entry_env, entry_heap

  def inv_ctx(self, st, ghost, entry_env, entry_heap):
    env = dict(st.env)
    env.update(ghost)
    cx = self.spec_ctx(st)
    cx.env = env
    if cx.old is not None:
      oenv = dict(cx.old.env)
      oenv.update(ghost)
      cx.old = SpecCtx(oenv, cx.old.heap, st.pc, None, self.cur_mod)
    # loop-entry state is available as pre(e)
    penv = dict(entry_env)
    penv.update(ghost)
    cx.pre = SpecCtx(penv, entry_heap, st.pc, None, self.cur_mod)
    return cx

  def spec_fn_pre(self, n, cx):
    p = getattr(cx, 'pre', None)
    if p is None:
      raise SpecError('pre() outside a loop invariant')
    return self.sv(n.args[0], p)

  def check_inv(self, tag, key, spec, st, ghost, entry_env, entry_heap):
    for i, inv in enumerate(spec.get('inv', ())):
      cx = self.inv_ctx(st, ghost, entry_env, entry_heap)
      self.oblige('loop%s/inv%d/%s' % (key, i, tag), st, self.spec_bool(inv, cx), detail=inv,
                  assume_after=False)

  def assume_inv(self, spec, st, ghost, entry_env, entry_heap):
    for inv in spec.get('inv', ()):
      cx = self.inv_ctx(st, ghost, entry_env, entry_heap)
      st.assume(self.spec_bool(inv, cx))

  def st_While(self, s, st):
    if self.mode == 'event':
      yield from self.event_while(s, st)
      return
    key, spec = self.loop_spec(s)
    self.check_inv('init', key, spec, st, {}, st.env, st.heap)
    h = st.fork()
    entry_env, entry_heap = self.loop_havoc(h, s.body + [ast.Expr(s.test)], spec)
    self.assume_inv(spec, h, {}, entry_env, entry_heap)
    for st1, c in self.ev(s.test, h):
      if isinstance(c, Exc):
        yield 'raise', st1, c
        continue
      for st2, taken in self.fork(st1, truthy(c, st1)):
        if taken:
          for kind, st3, v in self.exec_block(s.body, st2):
            if kind in ('normal', 'continue'):
              self.check_inv('preserve', key, spec, st3, {}, entry_env, entry_heap)
            elif kind == 'break':
              yield 'normal', st3, None
            else:
              yield kind, st3, v
        else:
          yield from self.exec_block(s.orelse, st2)

  def st_Break(self, s, st):
    yield 'break', st, None

  def st_Continue(self, s, st):
    yield 'continue', st, None

  def st_For(self, s, st):
    for st1, it in self.ev(s.iter, st):
      if isinstance(it, Exc):
        yield 'raise', st1, it
        continue
      yield from self.for_over(s, it, st1)

  def for_over(self, s, it, st):
    key, spec = self.loop_spec(s)
    if isinstance(it, VTuple):
      yield from self.for_unrolled(s, it.items, st)
      return
    if self.mode == 'event' and not (isinstance(it, VRef) and it.ty.kind in ('set', 'list', 'vtuple', 'dict')):
      yield from self.event_for(s, it, st)
      return
    dom = self.iteration_domain(it, st)
    if dom is None:
      raise Unsupported('for over %r' % (it,))
    kind_, payload = dom
    if kind_ == 'set':
      yield from self.for_set(s, payload, key, spec, st)
    else:
      yield from self.for_indexed(s, payload, key, spec, st)

  def iteration_domain(self, it, st):
    """('set', (pred, bind)) or ('seq', (length, itemval))."""
    h = st.heap
    if isinstance(it, VSetExpr):
      ety = it.ty.elem if it.ty.kind == 'set' else ANY
      return 'set', (it.pred, lambda x, s: from_u(x, ety, s))
    if isinstance(it, VRef):
      k = it.ty.kind
      if k == 'set':
        return 'set', ((lambda e: h.mem(it.t, e)), lambda x, s: from_u(x, it.ty.elem, s))
      if k == 'dict':
        kt = it.ty.args[0] if it.ty.args else ANY
        return 'set', ((lambda e: h.dom(it.t, e)), lambda x, s: from_u(x, kt, s))
      if k in ('list', 'vtuple'):
        return 'seq', (h.len(it.t), lambda i, s: from_u(h.item(it.t, i), it.ty.elem, s))
    if isinstance(it, VBound):
      if it.name == 'items()':
        d = it.recv
        kt = d.ty.args[0] if d.ty.args else ANY
        vt = d.ty.args[1] if len(d.ty.args) > 1 else ANY
        return 'set', ((lambda e: h.dom(d.t, e)),
                       lambda x, s: VTuple([from_u(x, kt, s), note_alloc(from_u(h.val(d.t, x), vt, s), s)]))
      if it.name == 'values()':
        raise Unsupported('for over dict.values()')
      if it.name == 'range()':
        a = it.recv.items
        if len(a) == 1 and isinstance(a[0], VInt):
          return 'seq', (z3.If(a[0].t > 0, a[0].t, 0), lambda i, s: VInt(i))
        raise Unsupported('range with start/step')
      if it.name == 'enumerate()':
        inner = self.iteration_domain(it.recv, st)
        if inner and inner[0] == 'seq':
          ln, itf = inner[1]
          return 'seq', (ln, lambda i, s: VTuple([VInt(i), itf(i, s)]))
        raise Unsupported('enumerate over a set')
      if it.name == 'zip()':
        doms = [self.iteration_domain(x, st) for x in it.recv.items]
        if all(d and d[0] == 'seq' for d in doms):
          lens = [d[1][0] for d in doms]
          ln = lens[0]
          for l2 in lens[1:]:
            ln = z3.If(l2 < ln, l2, ln)
          return 'seq', (ln, lambda i, s: VTuple([d[1][1](i, s) for d in doms]))
        raise Unsupported('zip over non-sequences')
    return None

  def for_unrolled(self, s, items, st):
    if not items:
      yield from self.exec_block(s.orelse, st)
      return
    outs = list(self.assign(s.target, items[0], st))
    for k0, st1, v0 in outs:
      if k0 != 'normal':
        yield k0, st1, v0
        continue
      for kind, st2, v in self.exec_block(s.body, st1):
        if kind in ('normal', 'continue'):
          yield from self.for_unrolled(s, items[1:], st2)
        elif kind == 'break':
          yield 'normal', st2, None
        else:
          yield kind, st2, v

  def for_set(self, s, dom, key, spec, st):
    pred0, bind = dom
    empty = VSetExpr(lambda e: z3.BoolVal(False))
    self.check_inv('init', key, spec, st, {'_done': empty}, st.env, st.heap)
    # --- arbitrary iteration
    h = st.fork()
    tnames = [n.id for n in ast.walk(s.target) if isinstance(n, ast.Name)]
    entry_env, entry_heap = self.loop_havoc(h, s.body, spec, tnames)
    D = ufn(fresh_name('done'), U, B)
    x = fresh('elem', U)
    e = z3.Const(fresh_name('e'), U)
    h.assume(ForAllT([e], z3.Implies(D(e), pred0(e))))
    done = VSetExpr(lambda y: D(y))
    self.assume_inv(spec, h, {'_done': done}, entry_env, entry_heap)
    h.assume(pred0(x))
    h.assume(z3.Not(D(x)))
    if self.feasible(h):
      item = bind(x, h)
      ops.assume_type(item, h)
      for k0, st1, v0 in list(self.assign(s.target, item, h)):
        if k0 != 'normal':
          yield k0, st1, v0
          continue
        for kind, st2, v in self.exec_block(s.body, st1):
          if kind in ('normal', 'continue'):
            done2 = VSetExpr(lambda y: z3.Or(D(y), y == x))
            self.check_inv('preserve', key, spec, st2, {'_done': done2}, entry_env, entry_heap)
          elif kind == 'break':
            yield 'normal', st2, None
          else:
            yield kind, st2, v
    # --- exit: everything processed
    ex = st.fork()
    entry_env, entry_heap = self.loop_havoc(ex, s.body, spec, tnames)
    full = VSetExpr(lambda y: pred0(y))
    self.assume_inv(spec, ex, {'_done': full}, entry_env, entry_heap)
    # zero-iteration special case keeps full precision: nothing was havocked
    yield from self.exec_block(s.orelse, ex)

  def for_indexed(self, s, dom, key, spec, st):
    ln, itemf = dom
    self.check_inv('init', key, spec, st, {'_i': VInt(0)}, st.env, st.heap)
    h = st.fork()
    tnames = [n.id for n in ast.walk(s.target) if isinstance(n, ast.Name)]
    entry_env, entry_heap = self.loop_havoc(h, s.body, spec, tnames)
    i = fresh('idx', I)
    h.assume(z3.And(i >= 0, i < ln))
    self.assume_inv(spec, h, {'_i': VInt(i)}, entry_env, entry_heap)
    if self.feasible(h):
      item = itemf(i, h)
      ops.assume_type(item, h)
      for k0, st1, v0 in list(self.assign(s.target, item, h)):
        if k0 != 'normal':
          yield k0, st1, v0
          continue
        for kind, st2, v in self.exec_block(s.body, st1):
          if kind in ('normal', 'continue'):
            self.check_inv('preserve', key, spec, st2, {'_i': VInt(i + 1)}, entry_env, entry_heap)
          elif kind == 'break':
            yield 'normal', st2, None
          else:
            yield kind, st2, v
    ex = st.fork()
    entry_env, entry_heap = self.loop_havoc(ex, s.body, spec, tnames)
    ex.assume(ln >= 0)
    self.assume_inv(spec, ex, {'_i': VInt(ln)}, entry_env, entry_heap)
    yield from self.exec_block(s.orelse, ex)


def _as_load(t):
  t2 = ast.parse(ast.unparse(t), mode='eval').body
  return t2


def _union_members(ty):
  if ty.kind == 'union':
    for a in ty.args:
      yield from _union_members(a)
  elif ty.kind == 'opt':
    yield TNONE
    yield from _union_members(ty.args[0])
  else:
    yield ty


def _ty_from_val(v):
  if isinstance(v, VBool):
    return TBOOL
  if isinstance(v, VInt):
    return TINT
  if isinstance(v, VStr):
    return TSTR
  if isinstance(v, VRef):
    return v.ty
  return ANY
