"""Contracts (sidecar), class tables and extraction of the real functions from /repo."""
import ast
import hashlib
import os

from pvc.core import SpecError, parse_type, ANY

REPO = os.environ.get('VERIF_REPO', '/repo')


class Contract(object):
  """Sidecar contract for one function of /repo, addressed by qualified name.

  All specification expressions are Python expression strings evaluated by the
  spec evaluator (pvc.execs.Exec.sv): they may use the parameters, `result`,
  `old(e)`, `forall(lambda x: P)`, `exists(lambda x: P)`, `implies(a, b)`,
  `iff(a, b)`, `seteq(a, b)`, `fresh(o)`, and any function declared `pure`.
  """

  def __init__(self, name, types=None, requires=(), ensures=(), modifies=None,
               raises=None, loops=None, pure=None, inline=(), callbacks=(),
               asserts='prove', serves=(), mode='vc', spec=None, ghost=None,
               abstract=False, returns=None, locals_=None, assumes=(), lemmas=(),
               exc_ensures=None, opaque_preserves=(), relate=None, note='', source=None, opaque_requires=(), private=(), exit_lemmas=(), opaque_builtins=(),
               in_module=None, target=None, calls=None):
    self.name = name
    self.types = dict(types or {})
    self.requires = list(requires)
    self.ensures = list(ensures)
    self.modifies = modifies          # None => pure (nothing modified)
    self.raises = dict(raises or {})  # class name -> condition string (or True)
    self.loops = dict(loops or {})    # ordinal -> dict(inv=[...], modifies=[...], types={})
    self.pure = dict(pure or {})      # callee path -> return type
    self.inline = set(inline)
    self.callbacks = set(callbacks)
    self.asserts = asserts
    self.serves = list(serves)
    self.mode = mode
    self.spec = spec
    self.ghost = dict(ghost or {})
    self.abstract = abstract          # no body in /repo to verify (interface contract only)
    self.returns = returns
    self.locals_ = dict(locals_ or {})
    self.assumes = list(assumes)      # labelled assumptions (reported in evidence)
    self.lemmas = list(lemmas)
    self.exc_ensures = dict(exc_ensures or {})
    self.opaque_preserves = list(opaque_preserves)
    self.relate = relate
    self.note = note
    self.source = source        # ghost code (lemma): lives in the sidecar, not in /repo
    self.in_module = in_module
    self.target = target        # several contracts (cases) for one function: name = target + '#case'
    self.calls = dict(calls or {})   # callee path -> name of the contract (case) to use at calls made here
    self.opaque_requires = list(opaque_requires)
    self.exit_lemmas = list(exit_lemmas)   # trusted mathematical facts assumed at exit (listed in evidence)
    self.opaque_builtins = set(opaque_builtins)   # builtins treated as observable events (event mode)
    self.private = list(private)   # locals holding objects allocated here that never escape

  @property
  def module(self):
    if self.in_module:
      return self.in_module
    # longest prefix that is a module file
    parts = (self.target or self.name).split('.')
    for i in range(len(parts), 0, -1):
      p = os.path.join(REPO, *parts[:i]) + '.py'
      if os.path.exists(p):
        return '.'.join(parts[:i])
    raise SpecError('no module for %s' % self.name)

  @property
  def local_name(self):
    if self.source:
      return self.name
    return (self.target or self.name)[len(self.module) + 1:]


class ClassInfo(object):
  def __init__(self, name, fields=None, bases=(), properties=(), eq='identity', module=None, pyname=None,
               final=False):
    self.name = name
    self.pyname = pyname or name   # class name in the source (several modules define `Analyzer`)
    self.fields = {k: parse_type(v) for k, v in (fields or {}).items()}
    self.bases = tuple(bases)
    self.properties = set(properties)
    self.eq = eq
    self.module = module
    self.final = final   # no instance of a proper subclass occurs (e.g. ast.Store / ast.Load / ast.Del)


class World(object):
  """Everything the sidecar declares; shared by all contracts of a run."""

  def __init__(self):
    self.contracts = {}
    self.classes = {}
    self.field_types = {}     # field name -> Ty (name-keyed fallback)
    self.pure = {}            # canonical path -> return type string
    self.enums = {}           # class name -> list of member names
    self.macros = {}          # spec macro name -> (arg names, expression string)
    self._modules = {}

  def add(self, c):
    if c.name in self.contracts:
      raise SpecError('duplicate contract ' + c.name)
    self.contracts[c.name] = c
    return c

  def add_class(self, ci):
    self.classes[ci.name] = ci
    for f, t in ci.fields.items():
      self.field_types.setdefault(f, t)

  def class_for(self, module, pyname):
    for ci in self.classes.values():
      if ci.module == module and ci.pyname == pyname:
        return ci.name
    return pyname

  def field_type(self, cls, fname):
    seen = set()
    while cls and cls in self.classes and cls not in seen:
      seen.add(cls)
      ci = self.classes[cls]
      if fname in ci.fields:
        return ci.fields[fname]
      cls = ci.bases[0] if ci.bases else None
    return self.field_types.get(fname)

  def is_property(self, cls, fname):
    seen = set()
    while cls and cls in self.classes and cls not in seen:
      seen.add(cls)
      ci = self.classes[cls]
      if fname in ci.properties:
        return ci
      cls = ci.bases[0] if ci.bases else None
    return None

  def supers(self, cls):
    out = []
    seen = set()
    work = [cls]
    while work:
      c = work.pop(0)
      if c in seen:
        continue
      seen.add(c)
      out.append(c)
      if c in self.classes:
        work.extend(self.classes[c].bases)
    return out

  def module(self, modname):
    m = self._modules.get(modname)
    if m is None:
      m = ModuleInfo(modname)
      self._modules[modname] = m
    return m

  def find_method(self, cls, meth):
    """Qualified name of cls.meth following declared bases, if a contract or source exists."""
    for c in self.supers(cls):
      ci = self.classes.get(c)
      if ci is None or ci.module is None:
        continue
      q = '%s.%s.%s' % (ci.module, ci.pyname, meth)
      if q in self.contracts:
        return q
      mi = self.module(ci.module)
      if mi.find('%s.%s' % (ci.pyname, meth)) is not None:
        return q
    return None


class ModuleInfo(object):
  """Parsed source of one module of /repo (re-read from the working tree on every run)."""

  def __init__(self, modname):
    self.name = modname
    self.path = os.path.join(REPO, *modname.split('.')) + '.py'
    if not os.path.exists(self.path):
      raise SpecError('module file missing: ' + self.path)
    with open(self.path, 'rb') as f:
      data = f.read()
    self.sha256 = hashlib.sha256(data).hexdigest()
    self.source = data.decode('utf-8')
    self.tree = ast.parse(self.source, filename=self.path)
    self.imports = {}
    self.toplevel = {}
    for node in self.tree.body:
      self._scan_top(node)

  def _scan_top(self, node):
    if isinstance(node, ast.Import):
      for a in node.names:
        if a.asname:
          self.imports[a.asname] = a.name
        else:
          self.imports[a.name.split('.')[0]] = a.name.split('.')[0]
    elif isinstance(node, ast.ImportFrom):
      for a in node.names:
        self.imports[a.asname or a.name] = '%s.%s' % (node.module, a.name)
    elif isinstance(node, (ast.FunctionDef, ast.ClassDef)):
      self.toplevel[node.name] = node
    elif isinstance(node, ast.Assign):
      for t in node.targets:
        if isinstance(t, ast.Name):
          self.toplevel[t.id] = node
    elif isinstance(node, (ast.Try, ast.If)):
      for sub in node.body:
        self._scan_top(sub)

  def find(self, local_name):
    """FunctionDef addressed by 'Class.method', 'func', or 'func.<locals>.inner'."""
    parts = [p for p in local_name.split('.') if p != '<locals>']
    body = self.tree.body
    node = None
    for p in parts:
      node = None
      for n in body:
        if isinstance(n, (ast.FunctionDef, ast.ClassDef, ast.AsyncFunctionDef)) and n.name == p:
          node = n
          break
      if node is None:
        # search nested statements (defs inside if/try/with at that level)
        for n in body:
          for sub in ast.walk(n):
            if isinstance(sub, (ast.FunctionDef, ast.ClassDef)) and sub.name == p and sub is not n:
              node = sub
              break
          if node is not None:
            break
      if node is None:
        return None
      body = node.body
    return node

  def class_of(self, local_name):
    parts = local_name.split('.')
    if len(parts) >= 2:
      n = self.find('.'.join(parts[:-1]))
      if isinstance(n, ast.ClassDef):
        return n.name
    return None

  def canonical(self, name):
    """Canonical dotted path of a module-level name."""
    if name in self.imports:
      return self.imports[name]
    if name in self.toplevel:
      return '%s.%s' % (self.name, name)
    return None


def func_source_hash(node):
  return hashlib.sha256(ast.dump(node).encode()).hexdigest()[:16]
