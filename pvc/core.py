"""Sorts, types, symbolic values and the functional heap used by the VC generator.

Encoding (DESIGN.md 3.3): every Python value that is not a bool / int / str / None /
fixed-arity tuple is a term of the single uninterpreted sort U.  Mutable containers are
heap objects: the heap is a record of *Python closures* over z3 terms
(mem(s,e), dom(d,k), val(d,k), len(l), item(l,i), fld_<name>(o), alloc(o));
an update wraps the closure, so straight-line code yields quantifier-free terms.
Havoc replaces a component by a fresh uninterpreted function (two-state relational
encoding with explicit frame axioms) -- never arrays of arrays.
"""
import ast
import itertools
import z3

U = z3.DeclareSort('U')
Cls = z3.DeclareSort('Cls')
B = z3.BoolSort()
I = z3.IntSort()
S = z3.StringSort()


class Unsupported(Exception):
  """The code (or a contract) left the subset the engine lowers: UNDECIDED, never a violation."""


class SpecUndefined(Exception):
  """A spec expression is undefined on this path (e.g. result[3] of a 3-tuple): the clause is false."""


class SpecError(Exception):
  """A contract refers to something that does not exist in the current source (UNDECIDED)."""


_fn_cache = {}


def ufn(name, *sorts):
  key = (name,) + tuple(str(s) for s in sorts)
  f = _fn_cache.get(key)
  if f is None:
    f = z3.Function(name, *sorts)
    _fn_cache[key] = f
  return f


_counter = itertools.count()
ENTRY_TERMS, FRESH_TERMS = {}, {}


def reset_fresh():
  global _counter
  _counter = itertools.count()
  ENTRY_TERMS.clear()
  FRESH_TERMS.clear()


def fresh_name(base):
  return '%s!%d' % (base, next(_counter))


def fresh(base, sort):
  return z3.Const(fresh_name(base), sort)


NONE = z3.Const('py_None', U)
typeof = ufn('typeof', U, Cls)
subcls = ufn('subcls', Cls, Cls, B)
truthy_u = ufn('truthy', U, B)
py_eq = ufn('py_eq', U, U, B)
hash_u = ufn('py_hash', U, I)
box_bool = ufn('box_bool', B, U)
unbox_bool = ufn('unbox_bool', U, B)
box_int = ufn('box_int', I, U)
unbox_int = ufn('unbox_int', U, I)
box_str = ufn('box_str', S, U)
unbox_str = ufn('unbox_str', U, S)
kindof = ufn('kindof', U, I)    # 1 set-like, 2 dict, 3 list/tuple object, 0 anything else
KIND_CODE = {'set': 1, 'dict': 2, 'list': 3, 'vtuple': 3}
lt_u = ufn('py_lt', U, U, B)   # a total order on comparable values (sorted / QN.__lt__)


def cls_const(name):
  return z3.Const('cls_' + name, Cls)


def tup_ctor(n):
  return ufn('tup%d' % n, *([U] * n + [U]))


def tup_proj(n, i):
  return ufn('tup%d_%d' % (n, i), U, U)


# ------------------------------------------------------------------ types

class Ty(object):
  __slots__ = ('kind', 'args', 'name')

  def __init__(self, kind, args=(), name=None):
    self.kind = kind
    self.args = tuple(args)
    self.name = name

  def __repr__(self):
    if self.kind == 'obj':
      return self.name
    if self.args:
      return '%s[%s]' % (self.kind, ','.join(map(repr, self.args)))
    return self.kind

  def __eq__(self, o):
    return isinstance(o, Ty) and (self.kind, self.args, self.name) == (o.kind, o.args, o.name)

  def __hash__(self):
    return hash((self.kind, self.args, self.name))

  @property
  def elem(self):
    return self.args[0] if self.args else ANY


ANY = Ty('any')
TBOOL = Ty('bool')
TINT = Ty('int')
TSTR = Ty('str')
TNONE = Ty('none')
TCALL = Ty('callable')

_SIMPLE = {'Any': ANY, 'bool': TBOOL, 'int': TINT, 'str': TSTR, 'None': TNONE,
           'Callable': TCALL, 'object': ANY}
_GENERIC = {'Set': 'set', 'FrozenSet': 'set', 'Dict': 'dict', 'List': 'list',
            'Seq': 'vtuple', 'VTuple': 'vtuple', 'Tuple': 'tuple', 'Opt': 'opt',
            'Iter': 'iter'}


def parse_type(s):
  if isinstance(s, Ty):
    return s
  if s is None:
    return ANY
  node = ast.parse(s.strip(), mode='eval').body
  return _ty_of(node)


def _ty_of(node):
  if isinstance(node, ast.Constant) and node.value is None:
    return TNONE
  if isinstance(node, ast.Name):
    if node.id in _SIMPLE:
      return _SIMPLE[node.id]
    if node.id in _GENERIC:
      return Ty(_GENERIC[node.id], (ANY,))
    return Ty('obj', (), node.id)
  if isinstance(node, ast.Subscript):
    base = node.value.id
    sl = node.slice
    elts = sl.elts if isinstance(sl, ast.Tuple) else [sl]
    args = tuple(_ty_of(e) for e in elts)
    if base not in _GENERIC:
      raise SpecError('unknown generic type %s' % base)
    return Ty(_GENERIC[base], args)
  if isinstance(node, ast.BinOp) and isinstance(node.op, ast.BitOr):
    return Ty('union', (_ty_of(node.left), _ty_of(node.right)))
  raise SpecError('cannot parse type %s' % ast.dump(node))


def sort_of(ty):
  if ty.kind == 'bool':
    return B
  if ty.kind == 'int':
    return I
  if ty.kind == 'str':
    return S
  return U


# ------------------------------------------------------------------ values

class V(object):
  pass


class VBool(V):
  def __init__(self, t):
    self.t = t if z3.is_expr(t) else z3.BoolVal(bool(t))

  def __repr__(self):
    return 'VBool(%s)' % self.t


class VInt(V):
  def __init__(self, t):
    self.t = t if z3.is_expr(t) else z3.IntVal(int(t))

  def __repr__(self):
    return 'VInt(%s)' % self.t


class VStr(V):
  def __init__(self, t):
    self.t = t if z3.is_expr(t) else z3.StringVal(t)

  def __repr__(self):
    return 'VStr(%s)' % self.t


class _VNone(V):
  def __repr__(self):
    return 'VNone'


VNone = _VNone()


class VTuple(V):
  def __init__(self, items):
    self.items = list(items)

  def __repr__(self):
    return 'VTuple(%r)' % (self.items,)


class VRef(V):
  """A value of sort U with a static type tag used only for operation dispatch."""

  def __init__(self, t, ty=ANY):
    self.t = t
    self.ty = ty

  def __repr__(self):
    return 'VRef(%s:%r)' % (self.t, self.ty)


class VOldRef(VRef):
  """old(e) for a container e: the same object (identity comparisons use .t) viewed with the contents
  it had in the old state -- membership, length, items and keys are read from `heap`, not from the
  heap of the context the value is used in."""

  def __init__(self, t, ty, heap):
    VRef.__init__(self, t, ty)
    self.heap = heap


def heap_of(v, cx):
  return getattr(v, 'heap', None) or cx.heap


class VSetExpr(V):
  """Spec-mode set: a membership predicate (closure over a U term)."""

  def __init__(self, pred, ty=ANY):
    self.pred = pred
    self.ty = ty


class VGlobal(V):
  """A module-level name resolved to a canonical dotted path."""

  def __init__(self, path):
    self.path = path

  def __repr__(self):
    return 'VGlobal(%s)' % self.path


class VFunc(V):
  """A nested def / lambda closure, or an inlinable function read from /repo."""

  def __init__(self, node, env, modinfo, qualname, self_val=None):
    self.node = node
    self.env = env
    self.modinfo = modinfo
    self.qualname = qualname
    self.self_val = self_val


class VBound(V):
  """obj.method not yet called."""

  def __init__(self, recv, name):
    self.recv = recv
    self.name = name


class VSuper(V):
  """super(Class, self): method lookup starts above Class in the declared bases."""

  def __init__(self, cls, self_val):
    self.cls = cls
    self.self_val = self_val


class VBuiltin(V):
  def __init__(self, name):
    self.name = name

  def __repr__(self):
    return 'VBuiltin(%s)' % self.name


class Exc(V):
  """An exception in flight: class name (string) + optional payload value."""

  def __init__(self, cls, payload=None, origin=None):
    self.cls = cls
    self.payload = payload
    self.origin = origin

  def __repr__(self):
    return 'Exc(%s)' % self.cls


EXC_PARENTS = {
    'KeyError': 'LookupError', 'IndexError': 'LookupError', 'LookupError': 'Exception',
    'ValueError': 'Exception', 'TypeError': 'Exception', 'AttributeError': 'Exception',
    'NameError': 'Exception', 'UnboundLocalError': 'NameError',
    'AssertionError': 'Exception', 'NotImplementedError': 'RuntimeError',
    'RuntimeError': 'Exception', 'StopIteration': 'Exception', 'OSError': 'Exception',
    'Exception': 'BaseException', 'ZeroDivisionError': 'ArithmeticError',
    'ArithmeticError': 'Exception', 'OpaqueException': 'Exception',
    'OpaqueBaseException': 'BaseException',
}


def exc_isa(cls, parent):
  while cls is not None:
    if cls == parent:
      return True
    cls = EXC_PARENTS.get(cls)
  return False


# ------------------------------------------------------------------ heap

CONTAINER_COMPS = ('mem', 'dom', 'val', 'len', 'item', 'lmem')
_COMP_SIG = {
    'mem': (U, U, B), 'dom': (U, U, B), 'val': (U, U, U), 'len': (U, I),
    'item': (U, I, U), 'alloc': (U, B), 'card': (U, I), 'lmem': (U, U, B),
}


class Heap(object):
  """Record of closures.  Never mutated in place: every update returns a new Heap."""

  def __init__(self, comps=None, fld_sorts=None):
    self.c = dict(comps or {})
    self.fld_sorts = fld_sorts if fld_sorts is not None else {}

  def copy(self):
    return Heap(self.c, self.fld_sorts)

  def _base(self, name, version):
    if isinstance(name, tuple):
      sort = self.fld_sorts.get(name[1], U)
      return ufn('fld_%s!%s' % (name[1], version), U, sort)
    return ufn('%s!%s' % (name, version), *_COMP_SIG[name])

  def get(self, name):
    f = self.c.get(name)
    if f is None:
      f = self._base(name, 0)
      self.c[name] = f
    return f

  def fld(self, fname, sort=None):
    if sort is not None and fname not in self.fld_sorts:
      self.fld_sorts[fname] = sort
    return self.get(('fld', fname))

  def with_(self, name, fn):
    h = self.copy()
    h.c[name] = fn
    return h

  def havoc(self, names):
    h = self.copy()
    v = fresh_name('h')
    for n in names:
      h.c[n] = self._base(n, v)
    return h

  def names(self):
    return list(self.c.keys())

  # convenience
  def mem(self, s, e):
    return self.get('mem')(s, e)

  def dom(self, d, k):
    return self.get('dom')(d, k)

  def val(self, d, k):
    return self.get('val')(d, k)

  def len(self, l):
    return self.get('len')(l)

  def item(self, l, i):
    return self.get('item')(l, i)

  def alloc(self, o):
    return self.get('alloc')(o)

  def lmem(self, l, e):
    return self.get('lmem')(l, e)


# Syntactic aliasing knowledge (formula size only, never a new assumption): a term registered as allocated
# at function entry (the state also carries the hypothesis entry.alloc(t)) cannot be an object allocated
# later (hypothesis not entry.alloc(t') at its allocation, allocation is monotone), and two objects
# allocated at different sites of one path are different.  obj_ite uses this to skip `If(s == a0, ..)`
# layers that the solver would otherwise have to refute one by one through the allocation axioms.


def reset_known():
  ENTRY_TERMS.clear()
  FRESH_TERMS.clear()


def mark_entry(t):
  ENTRY_TERMS[t.get_id()] = t


def mark_fresh(t):
  FRESH_TERMS[t.get_id()] = t


def known_distinct(a, b):
  ia, ib = a.get_id(), b.get_id()
  if ia == ib:
    return False
  if ia in FRESH_TERMS and (ib in ENTRY_TERMS or ib in FRESH_TERMS or b.eq(NONE)):
    return True
  if ib in FRESH_TERMS and (ia in ENTRY_TERMS or a.eq(NONE)):
    return True
  return False


def obj_ite(s, a0, then, other):
  """If(s == a0, then(), other()) with syntactically decided cases removed."""
  if s.eq(a0):
    return then()
  if known_distinct(s, a0):
    return other()
  return z3.If(s == a0, then(), other())


def upd2(old, a0, fn_new):
  """Pointwise update of a binary heap component at first argument a0."""
  return lambda s, e: obj_ite(s, a0, lambda: fn_new(e), lambda: old(s, e))


def upd1(old, a0, new_val):
  return lambda s: obj_ite(s, a0, lambda: new_val, lambda: old(s))


# ------------------------------------------------------------------ quantifiers with explicit triggers

def _candidate_patterns(consts, body, limit=6):
  """Smallest uninterpreted applications that mention every bound constant (single patterns)."""
  ids = {c.get_id() for c in consts}
  need = len(ids)
  found = []
  seen = set()

  def walk(e):
    """returns set of bound ids occurring in e"""
    k = e.get_id()
    if z3.is_quantifier(e):
      return set()      # do not look inside nested binders
    occ = set()
    if z3.is_const(e) and k in ids:
      return {k}
    kids_full = False
    for ch in e.children():
      o = walk(ch)
      occ |= o
      if len(o) == need and not (z3.is_const(ch) and ch.get_id() in ids):
        kids_full = True
    if len(occ) == need and not kids_full and z3.is_app(e) and e.decl().kind() == z3.Z3_OP_UNINTERPRETED \
        and e.num_args() > 0 and k not in seen:
      seen.add(k)
      found.append(e)
    return occ
  walk(body)
  return found[:limit]


def _pure_uninterp(e, ids):
  """e is built only from uninterpreted applications, bound constants and free constants."""
  if z3.is_quantifier(e):
    return False
  if z3.is_const(e):
    return e.decl().kind() == z3.Z3_OP_UNINTERPRETED
  if not z3.is_app(e) or e.decl().kind() != z3.Z3_OP_UNINTERPRETED:
    return False
  return all(_pure_uninterp(c, ids) for c in e.children())


def _mentions(e, ids):
  if z3.is_const(e):
    return e.get_id() in ids
  if z3.is_quantifier(e):
    return False
  return any(_mentions(c, ids) for c in e.children())


def goal_exists_with_triggers(q):
  """Re-create a (single-variable-block) existential of a goal with every pure uninterpreted atom of
  its body that mentions all bound variables as an alternative trigger."""
  n = q.num_vars()
  consts = [z3.Const(fresh_name('ex_' + q.var_name(i)), q.var_sort(i)) for i in range(n)]
  body = z3.substitute_vars(q.body(), *reversed(consts))
  ids = {c.get_id() for c in consts}
  pats, seen = [], set()

  def walk(e):
    if z3.is_quantifier(e):
      return
    if z3.is_app(e) and e.decl().kind() == z3.Z3_OP_UNINTERPRETED and e.num_args() > 0 \
        and _pure_uninterp(e, ids) and all(_mentions(e, {i}) for i in ids):
      if e.get_id() not in seen:
        seen.add(e.get_id())
        pats.append(e)
      return
    for c in e.children():
      walk(c)
  walk(body)
  if not pats:
    return q
  return z3.Exists(consts, body, patterns=pats[:8])


def ForAllT(consts, body):
  return z3.ForAll(consts, body)


def ExistsT(consts, body):
  return z3.Exists(consts, body)
