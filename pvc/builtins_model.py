"""Models of the Python builtins the target functions use (assumptions listed in DESIGN.md 3.4)."""
import ast
import z3

from pvc.core import *  # noqa: F401,F403
from pvc import ops
from pvc.ops import to_u, from_u, truthy, as_setpred, Event
from pvc.spec_eval import elem_type, const_val


class BuiltinMixin(object):

  def call_builtin(self, name, args, kw, st, star=None, dstar=None, n=None):
    if self.mode == 'event' and self.contract is not None and name in self.contract.opaque_builtins:
      yield from self.call_opaque(None, args, kw, st, star, dstar, kind='call', label='builtins.' + name)
      return
    m = getattr(self, 'bi_' + name, None)
    if m is None:
      if name in EXC_PARENTS or name in ('BaseException',):
        yield st, self.make_exception(name, args, st)
        return
      raise Unsupported('builtin %s' % name)
    if star is not None or dstar is not None:
      raise Unsupported('star call of builtin %s' % name)
    r = m(args, kw, st)
    if hasattr(r, '__next__'):
      yield from r
    else:
      yield st, r

  def bi_len(self, args, kw, st):
    v = args[0]
    if isinstance(v, VRef) and v.ty.kind in ('set', 'dict'):
      t = st.heap.get('card')(v.t)
      st.assume(t >= 0)
      x = z3.Const(fresh_name('e'), U)
      pred = as_setpred(v, st)
      st.assume((t == 0) == z3.Not(ExistsT([x], pred(x))))
      return VInt(t)
    if isinstance(v, VRef) and v.ty.kind in ('any', 'opt'):
      return self.pure_app('len', [v], 'int', st)
    return self.len_of(v, st)

  def bi_isinstance(self, args, kw, st):
    v, c = args
    names = []
    for x in (c.items if isinstance(c, VTuple) else [c]):
      if isinstance(x, VGlobal):
        mod, _, last = x.path.rpartition('.')
        names.append(self.world.class_for(mod, last))     # sidecar name of a class declared with pyname
      elif isinstance(x, VBuiltin):
        names.append(x.name)
      else:
        raise Unsupported('isinstance class argument %r' % (x,))
    return VBool(z3.Or([self.isinstance_one(v, nm, st) for nm in names]))

  def bi_hasattr(self, args, kw, st):
    o, nm = args
    if not (isinstance(nm, VStr) and z3.is_string_value(nm.t)):
      raise Unsupported('hasattr with a computed name')
    name = nm.t.as_string()
    if isinstance(o, VGlobal):
      f = st.heap.fld('has!' + o.path + '.' + name, B)
      return VBool(f(global_const(o.path)))
    return VBool(self.has_field(o, name, st))

  def has_field(self, o, name, st):
    f = st.heap.fld('has!' + name, B)
    return f(to_u(o, st))

  def bi_getattr(self, args, kw, st):
    o, nm = args[0], args[1]
    if not (isinstance(nm, VStr) and z3.is_string_value(nm.t)):
      raise Unsupported('getattr with a computed name')
    name = nm.t.as_string()
    has = self.has_field(o, name, st)
    fty = self.world.field_type(o.ty.name if isinstance(o, VRef) and o.ty.kind == 'obj' else None, name) or ANY
    f = st.heap.fld(name, sort_of(fty))
    val = from_u(f(to_u(o, st)), fty, st) if sort_of(fty) == U else self.read_attr(
        VRef(to_u(o, st), Ty('obj', (), '?')), name, st)

    def gen():
      for st2, ok in self.fork(st, has):
        if ok:
          yield st2, val
        elif len(args) > 2:
          yield st2, args[2]
        else:
          yield st2, Exc('AttributeError')
    return gen()

  def bi_set(self, args, kw, st, cls_name=None):
    if not args:
      return ops.new_set(st, lambda e: z3.BoolVal(False), None, cls_name)
    src = args[0]
    return ops.new_set(st, as_setpred(src, st), Ty('set', (elem_type(src),)), cls_name)

  def bi_frozenset(self, args, kw, st):
    return self.bi_set(args, kw, st, 'frozenset')

  def bi_dict(self, args, kw, st):
    if not args and not kw:
      return ops.new_dict(st, [])
    if len(args) == 1 and not kw and isinstance(args[0], VBound) and args[0].name == 'zip()' \
        and len(args[0].recv.items) == 2:
      return self.dict_of_zip(args[0].recv.items[0], args[0].recv.items[1], st)
    raise Unsupported('dict(...) with arguments')

  def dict_of_zip(self, ks, vs, st):
    """dict(zip(ks, vs)): keys ks[0..n), n = min(len ks, len vs); a repeated key keeps its LAST value.
    Characterised by a witness function w(k) = last index of k."""
    lk, ik = self.seq_view(ks, st)
    lv, iv = self.seq_view(vs, st)
    n = z3.If(lk <= lv, lk, lv)
    r = ops.alloc_obj(st, Ty('dict', (elem_type(ks) if isinstance(ks, VRef) else ANY, elem_type(vs) if isinstance(vs, VRef) else ANY)), 'dict')
    P = ufn(fresh_name('zipdom'), U, B)
    V = ufn(fresh_name('zipval'), U, U)
    wit = ufn(fresh_name('ziplast'), U, I)
    i = z3.Const(fresh_name('zi'), I)
    j = z3.Const(fresh_name('zj'), I)
    k = z3.Const(fresh_name('zk'), U)
    st.assume(z3.ForAll([i], z3.Implies(z3.And(i >= 0, i < n), P(ik(i))), patterns=[ik(i)] if not z3.is_int_value(lk) else None)
              if not isinstance(ks, VTuple) else z3.And([P(ik(z3.IntVal(q))) for q in range(len(ks.items))] or [z3.BoolVal(True)]))
    st.assume(z3.ForAll([k], z3.Implies(P(k), z3.And(wit(k) >= 0, wit(k) < n, ik(wit(k)) == k, V(k) == iv(wit(k)))), patterns=[P(k)]))
    st.assume(z3.ForAll([k, j], z3.Implies(z3.And(P(k), j > wit(k), j < n), ik(j) != k)))
    olddom, oldval = st.heap.get('dom'), st.heap.get('val')
    st.heap = st.heap.with_('dom', lambda d, x: obj_ite(d, r.t, lambda: P(x), lambda: olddom(d, x))) \
                     .with_('val', lambda d, x: obj_ite(d, r.t, lambda: V(x), lambda: oldval(d, x)))
    return r

  def bi_list(self, args, kw, st):
    if not args:
      return ops.new_list(st, [])
    return self.to_sequence(args[0], st, 'list')

  def bi_tuple(self, args, kw, st):
    if not args:
      return VTuple([])
    if isinstance(args[0], VTuple):
      return args[0]
    return self.to_sequence(args[0], st, 'vtuple')

  def to_sequence(self, src, st, kind):
    """list(x) / tuple(x): same elements; order = iteration order (arbitrary for sets)."""
    if isinstance(src, VTuple):
      return ops.new_list(st, [to_u(i, st) for i in src.items], Ty(kind, (ANY,)))
    if isinstance(src, VRef) and src.ty.kind in ('list', 'vtuple'):
      h = st.heap
      return ops.new_list_sym(st, h.len(src.t), lambda i: h.item(src.t, i), Ty(kind, (src.ty.elem,)),
                              mempred=lambda e: h.lmem(src.t, e))
    # a set (or set expression): an enumeration without repetition
    pred = as_setpred(src, st)
    ety = elem_type(src)
    return self.enumeration_of(pred, ety, st, kind, src)

  def enumeration_of(self, pred, ety, st, kind, src=None):
    ln = fresh('enumlen', I)
    itf = ufn(fresh_name('enumitem'), I, U)
    idx = ufn(fresh_name('enumidx'), U, I)
    r = ops.new_list_sym(st, ln, lambda i: itf(i), Ty(kind, (ety,)), mempred=pred)
    i = z3.Const(fresh_name('i'), I)
    x = z3.Const(fresh_name('x'), U)
    st.assume(ln >= 0)
    st.assume(ForAllT([i], z3.Implies(z3.And(i >= 0, i < ln), z3.And(pred(itf(i)), idx(itf(i)) == i))))
    st.assume(ForAllT([x], z3.Implies(pred(x), z3.And(idx(x) >= 0, idx(x) < ln, itf(idx(x)) == x))))
    if isinstance(src, VRef) and src.ty.kind in ('set', 'dict'):
      st.assume(ln == st.heap.get('card')(src.t))
    j = z3.Const(fresh_name('j'), I)
    st.assume(ForAllT([i, j], z3.Implies(z3.And(i >= 0, i < j, j < ln), itf(i) != itf(j))))
    r.distinct = True
    return r

  def bi_sorted(self, args, kw, st):
    src = args[0]
    keyf = kw.get('key')
    seq = src if (isinstance(src, VRef) and src.ty.kind in ('list', 'vtuple')) else self.to_sequence(src, st, 'list')
    h = st.heap
    n_ = h.len(seq.t)
    ety = elem_type(seq)
    itf = ufn(fresh_name('sorteditem'), I, U)
    perm = ufn(fresh_name('perm'), I, I)      # result index -> source index (bijection)
    inv = ufn(fresh_name('perminv'), I, I)
    r = ops.new_list_sym(st, n_, lambda i: itf(i), Ty('list', (ety,)), mempred=lambda e: h.lmem(seq.t, e))
    i = z3.Const(fresh_name('i'), I)
    j = z3.Const(fresh_name('j'), I)
    inr = lambda k: z3.And(k >= 0, k < n_)
    st.assume(ForAllT([i], z3.Implies(inr(i), z3.And(inr(perm(i)), inv(perm(i)) == i,
                                                      itf(i) == h.item(seq.t, perm(i))))))
    st.assume(ForAllT([i], z3.Implies(inr(i), z3.And(inr(inv(i)), perm(inv(i)) == i))))
    # sortedness w.r.t. the key
    cx = self.spec_ctx(st)

    def key_of(u):
      v = from_u(u, ety, cx)
      if keyf is None:
        return v
      if isinstance(keyf, VFunc) and isinstance(keyf.node, ast.Lambda):
        env = dict(keyf.env)
        env[keyf.node.args.args[0].arg] = v
        from pvc.spec_eval import SpecCtx
        return self.sv(keyf.node.body, SpecCtx(env, st.heap, st.pc, None, keyf.modinfo))
      raise Unsupported('sorted key must be a lambda')
    ka, kb = key_of(itf(i)), key_of(itf(j))
    st.assume(ForAllT([i, j], z3.Implies(z3.And(inr(i), inr(j), i < j), self.key_le(ka, kb, st))))
    if getattr(seq, 'distinct', False):
      # a permutation of a duplicate-free sequence is duplicate-free
      st.assume(ForAllT([i, j], z3.Implies(z3.And(inr(i), inr(j), i < j), itf(i) != itf(j))))
      r.distinct = True
    r.sorted_key = key_of
    return r

  def key_le(self, a, b, st):
    """a <= b in Python's ordering of the modelled key values."""
    if isinstance(a, VTuple) and isinstance(b, VTuple) and len(a.items) == len(b.items):
      if not a.items:
        return z3.BoolVal(True)
      lt = self.key_lt(a.items[0], b.items[0], st)
      eq = self.eq_values(a.items[0], b.items[0], st)
      return z3.Or(lt, z3.And(eq, self.key_le(VTuple(a.items[1:]), VTuple(b.items[1:]), st)))
    return z3.Or(self.key_lt(a, b, st), self.eq_values(a, b, st))

  def key_lt(self, a, b, st):
    if isinstance(a, VBool) and isinstance(b, VBool):
      return z3.And(z3.Not(a.t), b.t)
    if isinstance(a, VInt) and isinstance(b, VInt):
      return a.t < b.t
    if isinstance(a, VStr) and isinstance(b, VStr):
      return a.t < b.t
    return lt_u(to_u(a, st), to_u(b, st))

  def bi_hash(self, args, kw, st):
    v = args[0]
    if isinstance(v, VRef) and v.ty.kind == 'obj':
      q = self.world.find_method(v.ty.name, '__hash__')
      if q is not None:
        return self.call_qualified(q, [v], {}, st, self_val=v)
    return VInt(self.hash_of(v, st))

  def bi_type(self, args, kw, st):
    v = args[0]
    return VRef(ufn('type_obj', U, U)(to_u(v, st)), ANY)

  def bi_str(self, args, kw, st):
    if not args:
      return VStr('')
    if isinstance(args[0], VStr):
      return args[0]
    return self.pure_app('str', [args[0]], 'str', st)

  def bi_repr(self, args, kw, st):
    return self.pure_app('repr', [args[0]], 'str', st)

  def bi_int(self, args, kw, st):
    if args and isinstance(args[0], VInt):
      return args[0]
    return self.pure_app('int', list(args), 'int', st)

  def bi_bool(self, args, kw, st):
    if not args:
      return VBool(False)
    return VBool(self.truth(args[0], st))

  def bi_callable(self, args, kw, st):
    return self.pure_app('callable', [args[0]], 'bool', st)

  def bi_id(self, args, kw, st):
    return self.pure_app('id', [args[0]], 'int', st)

  def bi_zip(self, args, kw, st):
    return VBound(VTuple(list(args)), 'zip()')

  def bi_enumerate(self, args, kw, st):
    return VBound(args[0], 'enumerate()')

  def bi_reversed(self, args, kw, st):
    src = args[0]
    ln, item = self.seq_view(src, st)
    return ops.new_list_sym(st, ln, lambda i: item(ln - 1 - i), Ty('list', (elem_type(src),)))

  def bi_range(self, args, kw, st):
    return VBound(VTuple(list(args)), 'range()')

  def bi_print(self, args, kw, st):
    st.trace.append(Event('log', 'print', [to_u(a, st) for a in args]))
    return VNone

  def bi_all(self, args, kw, st):
    return self._allany_val(args[0], st, True)

  def bi_any(self, args, kw, st):
    return self._allany_val(args[0], st, False)

  def _allany_val(self, src, st, universal):
    if isinstance(src, VTuple):
      ts = [truthy(x, st) for x in src.items]
      return VBool(z3.And(ts) if universal else z3.Or(ts))
    raise Unsupported('all/any over a non-generator')

  def bi_iter(self, args, kw, st):
    return self.call_opaque(None, [args[0]], {}, st, kind='iter', label='iter')

  def bi_next(self, args, kw, st):
    raise Unsupported('next()')

  def bi_super(self, args, kw, st):
    if len(args) == 2 and isinstance(args[0], VGlobal):
      return VSuper(args[0].path.rsplit('.', 1)[-1], args[1])
    raise Unsupported('zero-argument super()')

  def bi_issubclass(self, args, kw, st):
    return self.pure_app('issubclass', list(args), 'bool', st)

  # ---------------------------------------------------------------- f(<generator>)

  def call_with_generator(self, name, n, st):
    gen = n.args[0]
    g = self._comp_source(gen, st)
    for st1, src in self.ev(g.iter, st):
      if isinstance(src, Exc):
        yield st1, src
        continue
      if self.opaque_iterable(src):
        yield from self.opaque_comp(name, gen.elt, g, src, st1)
        continue
      if name in ('all', 'any'):
        cx = self.spec_ctx(st1)
        it = src
        if isinstance(src, VBound) and src.name == 'items()':
          raise Unsupported('all/any over items()')
        yield st1, self._quant_over(it, g, gen.elt, cx, name == 'all')
      elif name in ('set', 'frozenset'):
        cx = self.spec_ctx(st1)
        env2 = dict(st1.env)
        env2['__it'] = src
        cx.env = env2
        g2 = ast.comprehension(target=g.target, iter=ast.Name('__it', ast.Load()), ifs=g.ifs, is_async=0)
        e = self.spec_setcomp(ast.SetComp(elt=gen.elt, generators=[g2]), cx)
        r = ops.new_set(st1, e.pred, Ty('set', (e.ty.elem if e.ty.kind == 'set' else ANY,)),
                        'frozenset' if name == 'frozenset' else None)
        yield st1, r
      elif name in ('tuple', 'list'):
        yield st1, self.comp_to_seq(gen.elt, g, src, st1, 'tuple' if name == 'tuple' else 'list')
      else:
        raise Unsupported('%s(<generator>)' % name)
