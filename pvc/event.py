"""Event mode (DESIGN.md 3.5): functions whose job is to call opaque callbacks in the right order are
compared with a specification *program* (plain Python in the sidecar, lowered by the same front end).

Both programs are executed symbolically into *segments*: entry -> first loop head / exit, and
loop head -> next loop head / exit.  Callback results are named by (segment, event index) and shared
by both sides, loop-carried iterator handles are shared per loop ordinal.  Trace equivalence follows by
coinduction from: for every pair of jointly feasible segment paths with the same start, the event
sequences, the end kind and the end value coincide.  This covers every callback behaviour and every
iteration count (no unrolling).
"""
import ast
import textwrap
import z3

from pvc.core import *  # noqa: F401,F403
from pvc import ops
from pvc.ops import to_u, truthy, Event


class Segment(object):
  def __init__(self, start, pc, trace, end):
    self.start = start
    self.pc = list(pc)
    self.trace = list(trace)
    self.end = end          # ('exit', kind, value-term|None) | ('head', key, carried terms)


class EventMixin(object):

  def event_init(self):
    self.segments = []
    self.heads_done = set()
    self.event_loop_ids = {}

  # ---------------------------------------------------------------- segment bookkeeping

  def end_segment(self, st, end):
    self.segments.append(Segment(st.seg or 'entry', st.pc, st.trace, end))

  def new_head_state(self, st, key, body, extra_names=()):
    """Fresh state at a loop head: assigned locals havocked (unshared symbols), trace restarted."""
    h = st.fork()
    h.seg = 'head:%s' % (key,)
    h.trace = []
    h.evidx = 0
    h.allocidx = 0
    h.withidx = 0
    # path condition: keep only facts about values that are not loop-carried (parameters etc.)
    from pvc.stmts import assigned_names
    for nm in sorted(assigned_names(body) | set(extra_names)):
      cur = h.env.get(nm)
      if isinstance(cur, VFunc):
        continue
      if cur is None:
        h.env.pop(nm, None)
      else:
        h.env[nm] = VRef(fresh('carried_' + nm, U), ANY)
    h.pc = [p for p in self.requires_hyps]
    return h

  def loop_label(self, s):
    """Loops are labelled in order of first encounter (inlined callees included)."""
    k = self.event_loop_ids.get(id(s))
    if k is None:
      k = len(self.event_loop_ids)
      self.event_loop_ids[id(s)] = k
    return k

  def event_while(self, s, st):
    key = self.loop_label(s)
    self.end_segment(st, ('head', key, []))
    if key in self.heads_done:
      return
    self.heads_done.add(key)
    h = self.new_head_state(st, key, s.body + [ast.Expr(s.test)])
    for st1, c in self.ev(s.test, h):
      if isinstance(c, Exc):
        yield 'raise', st1, c
        continue
      for st2, taken in self.fork(st1, self.truth_event(c, st1)):
        if taken:
          for kind, st3, v in self.exec_block(s.body, st2):
            if kind in ('normal', 'continue'):
              self.end_segment(st3, ('head', key, []))
            elif kind == 'break':
              yield 'normal', st3, None
            else:
              yield kind, st3, v
        else:
          yield from self.exec_block(s.orelse, st2)

  def event_for(self, s, it, st):
    """for target in <opaque iterable>: events iter(it), then next(iterator) per iteration."""
    key = self.loop_label(s)
    outs = list(self.call_opaque(None, [it], {}, st, kind='iter', label='iter'))
    for st1, itv in outs:
      if isinstance(itv, Exc):
        yield 'raise', st1, itv
        continue
      self.end_segment(st1, ('head', key, [to_u(itv, st1)]))
    if key in self.heads_done:
      return
    self.heads_done.add(key)
    tnames = [n.id for n in ast.walk(s.target) if isinstance(n, ast.Name)]
    h = self.new_head_state(st, key, s.body, tnames)
    iterator = VRef(z3.Const('iterator!head:%s' % (key,), U), ANY)
    # next(iterator): either StopIteration (loop ends normally) or a value
    for st1, nv in list(self.call_opaque(None, [iterator], {}, h, kind='next', label='next')):
      if isinstance(nv, Exc):
        # an exception out of next(): StopIteration ends the loop, anything else propagates;
        # which one it is is decided by a predicate shared by both sides
        stop = z3.Bool('stop!%s' % nv.origin)
        for st2, is_stop in self.fork(st1, stop):
          if is_stop:
            yield from self.exec_block(s.orelse, st2)
          else:
            yield 'raise', st2, nv
        continue
      for k0, st2, v0 in list(self.assign(s.target, nv, st1)):
        if k0 != 'normal':
          yield k0, st2, v0
          continue
        for kind, st3, v in self.exec_block(s.body, st2):
          if kind in ('normal', 'continue'):
            self.end_segment(st3, ('head', key, [iterator.t]))
          elif kind == 'break':
            yield 'normal', st3, None
          else:
            yield kind, st3, v

  def truth_event(self, v, st):
    """Truth test of a value: observable for opaque objects (their __bool__ runs)."""
    if isinstance(v, VRef) and v.ty.kind in ('any', 'opt', 'union'):
      st.trace.append(Event('truth', 'truth', [v.t]))
    if isinstance(v, VBound) and not v.name.endswith('()'):
      # an attribute of an opaque object: an unknown value, its truth test is observable
      u = to_u(v, st)
      st.trace.append(Event('truth', 'truth', [u]))
      return truthy_u(u)
    return truthy(v, st)


def run_event(world, contract, node, modinfo, ExecCls, shared=None):
  """Symbolically execute one program in event mode; returns the executor (segments inside).
  `shared` = (parameter values by position, heap, path condition) of the other side: both programs
  run on the very same symbolic inputs."""
  ex = ExecCls(world, contract, mode='event')
  ex.event_init()
  ex.node = node
  ex.cur_mod = modinfo
  ex.base_line = node.lineno
  from pvc.spec_eval import SpecCtx
  a = node.args
  pnames = [p.arg for p in a.posonlyargs + a.args + a.kwonlyargs]
  if a.vararg:
    pnames.append(a.vararg.arg)
  if a.kwarg:
    pnames.append(a.kwarg.arg)
  if shared is None:
    st = ex.initial_state(node, modinfo)
    ex.entry_cx = SpecCtx(dict(st.env), st.heap, st.pc, None, modinfo)
    for r in contract.requires:
      st.assume(ex.spec_bool(r, ex.spec_ctx(st)))
  else:
    vals, heap, pc, other = shared
    if len(vals) != len(pnames):
      raise SpecError('specification program must take the same parameters as %s' % contract.name)
    st = ops.State(dict(zip(pnames, vals)), heap, pc)
    ex.ref_fields, ex.field_kinds, ex.value_kinds = other.ref_fields, other.field_kinds, other.value_kinds
    ex.words = getattr(other, 'words', set())
    ex.entry_cx = SpecCtx(dict(st.env), st.heap, st.pc, None, modinfo)
  ex.param_values = [st.env[p] for p in pnames]
  ex.requires_hyps = list(st.pc)
  ex.entry_heap = st.heap
  st.seg = 'entry'
  st.event_mode = True
  for kind, st1, v in ex.exec_block(node.body, st):
    ex.n_paths += 1
    if kind in ('normal', 'return'):
      val = None if kind == 'normal' else v
      ex.end_segment(st1, ('exit', 'return', to_u(val, st1) if val is not None else NONE))
    elif kind == 'raise':
      payload = to_u(v.payload, st1) if (v.payload is not None and v.cls == 'OpaqueException') else None
      ex.end_segment(st1, ('exit', 'raise:' + v.cls, payload))
    else:
      raise Unsupported('%s escapes the function' % kind)
  return ex


def events_match(a, b):
  """(structurally comparable?, z3 equality of all terms)"""
  if a.shape() != b.shape():
    return False, None
  ta, tb = a.terms(), b.terms()
  if len(ta) != len(tb):
    return False, None
  conj = [x == y for x, y in zip(ta, tb)]
  # an argument that is a container must also have the same CONTENTS on both sides at the time of the
  # call (allocation sites are named alike on both sides, so equal references alone prove nothing)
  ha, hb = a.heap, b.heap
  if ha is not None and hb is not None:
    e = z3.Const(fresh_name('ce'), U)
    i = z3.Const(fresh_name('ci'), I)
    for x in ta:
      if x.sort() != U:
        continue
      for comp, mk in (('mem', lambda h: h.mem(x, e)), ('lmem', lambda h: h.lmem(x, e)), ('dom', lambda h: h.dom(x, e))):
        if ha.c.get(comp) is not hb.c.get(comp):
          conj.append(z3.ForAll([e], mk(ha) == mk(hb)))
      if ha.c.get('val') is not hb.c.get('val'):
        conj.append(z3.ForAll([e], z3.Implies(ha.dom(x, e), ha.val(x, e) == hb.val(x, e))))
      if ha.c.get('len') is not hb.c.get('len'):
        conj.append(ha.len(x) == hb.len(x))
      if ha.c.get('item') is not hb.c.get('item'):
        conj.append(z3.ForAll([i], z3.Implies(z3.And(i >= 0, i < ha.len(x)), ha.item(x, i) == hb.item(x, i))))
  return True, z3.And(conj or [z3.BoolVal(True)])


def relabel(segments, mapping):
  def m(lbl):
    if isinstance(lbl, str) and lbl.startswith('head:'):
      return 'head:%s' % mapping[int(lbl[5:])]
    return lbl
  out = []
  for s in segments:
    end = s.end
    if end[0] == 'head':
      end = ('head', mapping[end[1]], end[2])
    t = Segment(m(s.start), s.pc, s.trace, end)
    out.append(t)
  return out


def compare(impl_segments, spec_segments, oblige):
  """Emit one obligation per jointly feasible pair of segment paths with the same start."""
  starts = sorted({s.start for s in impl_segments} | {s.start for s in spec_segments})
  n = 0
  for start in starts:
    ps = [s for s in impl_segments if s.start == start]
    qs = [s for s in spec_segments if s.start == start]
    if not ps or not qs:
      # one side reaches a loop head the other never reaches
      oblige('bisim/%s/reachable-on-both-sides' % start, [], z3.BoolVal(not ps and not qs) if False else z3.BoolVal(False),
             'segment %s exists only in the %s' % (start, 'implementation' if ps else 'specification'))
      continue
    lits_p = [_literals(p.pc) for p in ps]
    lits_q = [_literals(q.pc) for q in qs]
    for i, p in enumerate(ps):
      for j, q in enumerate(qs):
        if _conflict(lits_p[i], lits_q[j]):
          continue            # the two path conditions contain complementary literals: infeasible pair
        hyps = p.pc + q.pc
        goal, why = pair_goal(p, q)
        oblige('bisim/%s/%dx%d' % (start, i, j), hyps, goal, why)
        n += 1
  return n


def _literals(pc):
  pos, neg = set(), set()

  def add(f):
    pol = True
    while z3.is_not(f):
      f = f.arg(0)
      pol = not pol
    if pol and z3.is_and(f):
      for g in f.children():
        add(g)
      return
    if not pol and z3.is_or(f):
      for g in f.children():
        add(z3.Not(g))
      return
    (pos if pol else neg).add(f.get_id())
  for f in pc:
    add(f)
  return pos, neg


def _conflict(a, b):
  return bool(a[0] & b[1]) or bool(a[1] & b[0])


def pair_goal(p, q):
  if len(p.trace) != len(q.trace):
    return z3.BoolVal(False), 'different number of events: implementation %s, specification %s' % (
        [e.shape()[:2] for e in p.trace], [e.shape()[:2] for e in q.trace])
  conj = []
  for a, b in zip(p.trace, q.trace):
    ok, eq = events_match(a, b)
    if not ok:
      return z3.BoolVal(False), 'event mismatch: implementation %s, specification %s' % (a.shape(), b.shape())
    conj.append(eq)
  if p.end[0] != q.end[0] or p.end[1] != q.end[1]:
    return z3.BoolVal(False), 'segment ends differ: implementation %s, specification %s' % (p.end[:2], q.end[:2])
  if p.end[0] == 'exit':
    a, b = p.end[2], q.end[2]
    if (a is None) != (b is None):
      return z3.BoolVal(False), 'exception payload mismatch'
    if a is not None:
      conj.append(a == b)
  else:
    if len(p.end[2]) != len(q.end[2]):
      return z3.BoolVal(False), 'carried state arity'
    conj.extend(x == y for x, y in zip(p.end[2], q.end[2]))
  return z3.And(conj or [z3.BoolVal(True)]), 'same events, same end (%s)' % (p.end[1],)


def parse_spec_program(src):
  return ast.parse(textwrap.dedent(src)).body[0]
