"""Negation normal form with explicit Skolem functions.

Every hypothesis and the negated goal are normalised before they reach the solver, so that all
remaining quantifiers are universal and z3's e-matching does not have to skolemise quantifiers that
only appear after another quantifier has been instantiated (observed: goals that are instant in
ground form time out in the nested form).
"""
import z3

from pvc.core import fresh_name, ufn, _pure_uninterp, _mentions

_QCACHE = {}


def _has_quant(e):
  k = e.get_id()
  r = _QCACHE.get(k)
  if r is None:
    if z3.is_quantifier(e):
      r = True
    else:
      r = any(_has_quant(c) for c in e.children())
    _QCACHE[k] = r
  return r


def _open(q):
  n = q.num_vars()
  consts = [z3.Const(fresh_name('q_' + q.var_name(i)), q.var_sort(i)) for i in range(n)]
  body = z3.substitute_vars(q.body(), *reversed(consts))
  return consts, body


_SKOLEM_FNS = set()


def _skolems(consts, univ):
  out = []
  for c in consts:
    if univ:
      f = z3.Function(fresh_name('sk_' + str(c)), *([u.sort() for u in univ] + [c.sort()]))
      _SKOLEM_FNS.add(f.name())
      out.append(f(*univ))
    else:
      out.append(z3.Const(fresh_name('sk_' + str(c)), c.sort()))
  return out


def _uses_skolem(e):
  if z3.is_app(e):
    if e.decl().name() in _SKOLEM_FNS:
      return True
    return any(_uses_skolem(c) for c in e.children())
  return False


def _trivial(e, ids):
  """unary function applied to a bare bound variable: matches far too much to be a useful trigger"""
  return e.num_args() == 1 and z3.is_const(e.arg(0)) and e.arg(0).get_id() in ids


def _patterns(consts, body, limit=8, hyp=False):
  ids = {c.get_id() for c in consts}
  pats, seen = [], set()

  def walk(e):
    if z3.is_quantifier(e):
      return
    if z3.is_app(e) and e.decl().kind() == z3.Z3_OP_UNINTERPRETED and e.num_args() > 0 \
        and _pure_uninterp(e, ids) and all(_mentions(e, {i}) for i in ids) \
        and not (hyp and (_uses_skolem(e) or _trivial(e, ids))):
      if e.get_id() not in seen:
        seen.add(e.get_id())
        pats.append(e)
      return
    for c in e.children():
      walk(c)
  walk(body)
  return pats[:limit]


def nnf(f, pol=True, univ=(), goal=False):
  """Formula equivalent to f (pol) / not f (not pol), existentials replaced by Skolem terms."""
  univ = list(univ)
  if not _has_quant(f):
    return f if pol else z3.Not(f)
  if z3.is_quantifier(f):
    consts, body = _open(f)
    universal = (f.is_forall() == pol)
    if universal:
      before = len(_SKOLEM_FNS)
      inner = nnf(body, pol, univ + consts, goal)
      if goal:
        pats = _patterns(consts, inner)
        if pats:
          return z3.ForAll(consts, inner, patterns=pats)
      elif len(_SKOLEM_FNS) > before:
        # the body mentions Skolem functions of these variables: give the solver triggers that do
        # not depend on them, otherwise the clause is never instantiated
        pats = _patterns(consts, inner, hyp=True)
        if pats:
          return z3.ForAll(consts, inner, patterns=pats)
      return z3.ForAll(consts, inner)
    sks = _skolems(consts, univ)
    body = z3.substitute(body, *zip(consts, sks))
    return nnf(body, pol, univ, goal)
  k = f.decl().kind()
  kids = f.children()
  if k == z3.Z3_OP_NOT:
    return nnf(kids[0], not pol, univ, goal)
  if k == z3.Z3_OP_AND:
    parts = [nnf(c, pol, univ, goal) for c in kids]
    return z3.And(parts) if pol else z3.Or(parts)
  if k == z3.Z3_OP_OR:
    parts = [nnf(c, pol, univ, goal) for c in kids]
    return z3.Or(parts) if pol else z3.And(parts)
  if k == z3.Z3_OP_IMPLIES:
    a, b = kids
    if pol:
      return z3.Or(nnf(a, False, univ, goal), nnf(b, True, univ, goal))
    return z3.And(nnf(a, True, univ, goal), nnf(b, False, univ, goal))
  if k in (z3.Z3_OP_EQ, z3.Z3_OP_IFF) and kids[0].sort() == z3.BoolSort():
    a, b = kids
    if pol:
      return z3.And(z3.Or(nnf(a, False, univ, goal), nnf(b, True, univ, goal)),
                    z3.Or(nnf(b, False, univ, goal), nnf(a, True, univ, goal)))
    return z3.Or(z3.And(nnf(a, True, univ, goal), nnf(b, False, univ, goal)),
                 z3.And(nnf(b, True, univ, goal), nnf(a, False, univ, goal)))
  if k == z3.Z3_OP_ITE and f.sort() == z3.BoolSort():
    c, a, b = kids
    if not _has_quant(c):
      if pol:
        return z3.And(z3.Or(z3.Not(c), nnf(a, True, univ, goal)), z3.Or(c, nnf(b, True, univ, goal)))
      return z3.And(z3.Or(z3.Not(c), nnf(a, False, univ, goal)), z3.Or(c, nnf(b, False, univ, goal)))
  # quantifier below a non-boolean connective: leave it to the solver
  return f if pol else z3.Not(f)


def normalise(hyps, goal):
  out = [nnf(h, True) for h in hyps]
  out.append(nnf(goal, False, (), True))
  return out
