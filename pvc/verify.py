"""Driver: generate the obligations of one contracted function and discharge them."""
import ast
import time
import z3

from pvc.core import *  # noqa: F401,F403
from pvc import core, ops
from pvc.ops import State, to_u, truthy, global_const
from pvc.spec_eval import SpecMixin, SpecCtx, parse_spec
from pvc.expr_eval import ExprMixin
from pvc.calls import CallMixin
from pvc.builtins_model import BuiltinMixin
from pvc.stmts import StmtMixin
from pvc.event import EventMixin
from pvc import event as eventmod
from pvc.world import func_source_hash

QUICK_MS = 250


class Obligation(object):
  def __init__(self, name, hyps, goal, detail=''):
    self.name = name
    self.hyps = list(hyps)
    self.goal = goal
    self.detail = detail
    self.status = None      # 'proved' | 'refuted' | 'unknown'
    self.solver = None
    self.time = 0.0
    self.model = None

  def formula(self):
    from pvc.nnf import normalise
    return z3.And(normalise(self.hyps, self.goal))


def skolemize_goal(g, depth=0):
  """Replace universally quantified variables in positive positions of a goal by fresh constants
  (validity preserving); z3 decides the ground version instantly where the quantified one times out."""
  if depth > 40:
    return g
  if z3.is_quantifier(g) and g.is_forall():
    n = g.num_vars()
    consts = [z3.Const(fresh_name('sk_' + g.var_name(i)), g.var_sort(i)) for i in range(n)]
    body = z3.substitute_vars(g.body(), *reversed(consts))
    return skolemize_goal(body, depth + 1)
  if z3.is_quantifier(g) and g.is_exists():
    return goal_exists_with_triggers(g)
  if z3.is_app(g):
    k = g.decl().kind()
    if k == z3.Z3_OP_IMPLIES:
      a = g.arg(0)
      if z3.is_quantifier(a) and a.is_exists():
        # (exists x. B) => c   ==   forall x. (B => c)
        n = a.num_vars()
        consts = [z3.Const(fresh_name('sk_' + a.var_name(i)), a.var_sort(i)) for i in range(n)]
        a = z3.substitute_vars(a.body(), *reversed(consts))
      return z3.Implies(a, skolemize_goal(g.arg(1), depth + 1))
    if k in (z3.Z3_OP_EQ, z3.Z3_OP_IFF) and g.arg(0).sort() == z3.BoolSort() and _has_quant(g):
      l, r = g.arg(0), g.arg(1)
      return z3.And(skolemize_goal(z3.Implies(l, r), depth + 1), skolemize_goal(z3.Implies(r, l), depth + 1))
    if k == z3.Z3_OP_AND:
      return z3.And([skolemize_goal(a, depth + 1) for a in g.children()])
    if k == z3.Z3_OP_OR:
      kids = g.children()
      # skolemize at most one quantified disjunct (others stay as they are: still sound)
      out, done = [], False
      for a in kids:
        if not done and z3.is_quantifier(a) and a.is_forall():
          out.append(skolemize_goal(a, depth + 1))
          done = True
        elif z3.is_quantifier(a) and a.is_exists():
          out.append(goal_exists_with_triggers(a))
        else:
          out.append(a)
      return z3.Or(out)
  return g


def _has_quant(e, budget=[0]):
  if z3.is_quantifier(e):
    return True
  return any(_has_quant(c) for c in e.children())


class Exec(SpecMixin, ExprMixin, CallMixin, BuiltinMixin, StmtMixin, EventMixin):

  def __init__(self, world, contract, mode=None):
    self.world = world
    self.contract = contract
    self.mode = mode or (contract.mode if contract else 'vc')
    self.obligations = []
    self.cur_mod = None
    self.inline_depth = 0
    self.steps = 0
    self.max_steps = 20000
    self.loop_keys = {}
    self.spec_contract_stack = []
    self.assert_mode = contract.asserts if contract else 'prove'
    self.base_line = 0
    self.entry_cx = None
    self.opaque_may_raise = True
    self.target_name = contract.name if contract else ''
    self._feas_cache = {}
    self.n_paths = 0
    self.n_pruned = 0
    self.axioms = []
    self.pure_axiomatised = set()
    self.try_depth = 0
    self.frame_envs = []

  # ---------------------------------------------------------------- plumbing

  def oblige(self, name, st, goal, detail='', assume_after=True):
    if z3.is_true(z3.simplify(goal)):
      ob = Obligation(name, [], z3.BoolVal(True), detail)
      ob.status, ob.solver = 'proved', 'simplifier'
      self.obligations.append(ob)
      return
    self.obligations.append(Obligation(name, st.pc, goal, detail))
    if assume_after:
      st.assume(goal)

  def feasible(self, st):
    s = z3.Solver()
    s.set('timeout', QUICK_MS)
    s.add(*st.pc)
    r = s.check()
    if r == z3.unsat:
      self.n_pruned += 1
      return False
    return True

  def truth(self, v, st):
    if self.mode == 'event':
      return self.truth_event(v, st)
    return truthy(v, st)

  def spec_ctx(self, st):
    cx = SpecCtx(st.env, st.heap, st.pc, None, self.cur_mod)
    if self.entry_cx is not None:
      cx.old = SpecCtx(self.entry_cx.env, self.entry_cx.heap, st.pc, None, self.cur_mod)
    return cx

  def resolve_global(self, name, modinfo):
    g = ExprMixin.resolve_global(self, name, modinfo)
    if isinstance(g, VGlobal):
      return self.global_value(g)
    return g

  def global_value(self, g):
    ty = getattr(self.world, 'global_objects', {}).get(g.path)
    if ty is not None:
      t = global_const(g.path)
      if g.path not in self.pure_axiomatised and self.entry_cx is not None:
        self.pure_axiomatised.add(g.path)
        self.axioms.append(self.entry_cx.heap.alloc(t))     # module-level objects exist at entry
        self.axioms.append(t != NONE)
        if self.mode != 'event':
          mark_entry(t)
      return VRef(t, parse_type(ty))
    return g

  def read_attr(self, base, attr, st, spec=False):
    v = ExprMixin.read_attr(self, base, attr, st, spec)
    if isinstance(v, VGlobal):
      return self.global_value(v)
    if (self.mode != 'event' and isinstance(v, VRef) and isinstance(base, VRef)
        and self.entry_cx is not None and base.t.get_id() in ENTRY_TERMS
        and attr in getattr(self, 'ref_fields', ())
        and st.heap.get(('fld', attr)) is self.entry_cx.heap.get(('fld', attr))):
      # a reference field of an object that existed at entry, read through the entry heap's own field
      # function: the value existed at entry too (heap_wf closure axiom; restated as a hypothesis)
      st.assume(self.entry_cx.heap.alloc(v.t))
      mark_entry(v.t)
    return v

  # ---------------------------------------------------------------- function entry

  def initial_state(self, node, modinfo):
    c = self.contract
    st = State()
    for f, t in self.world.field_types.items():
      st.heap.fld_sorts[f] = sort_of(t)
    a = node.args
    cls = modinfo.class_of(c.local_name) if c else None
    if cls:
      cls = self.world.class_for(modinfo.name, cls)
    params = [p.arg for p in a.posonlyargs + a.args + a.kwonlyargs]
    if a.vararg:
      params.append(a.vararg.arg)
    if a.kwarg:
      params.append(a.kwarg.arg)
    for i, p in enumerate(params):
      if p in c.types:
        ty = parse_type(c.types[p])
      elif i == 0 and p == 'self' and cls:
        ty = Ty('obj', (), cls)
      elif a.vararg and p == a.vararg.arg:
        ty = Ty('vtuple', (ANY,))
      elif a.kwarg and p == a.kwarg.arg:
        ty = Ty('dict', (TSTR, ANY))
      else:
        ty = ANY
      v = ops.fresh_val(ty, p, st)
      st.env[p] = v
      if isinstance(v, VRef):
        st.assume(st.heap.alloc(v.t))        # whatever is passed in exists at entry
        if self.mode != 'event':
          mark_entry(v.t)
    for gname, gty in c.ghost.items():
      if gname in ('params', 'defaults'):
        continue
      st.env[gname] = ops.fresh_val(parse_type(gty), gname, st)
    self.ref_fields = self.relevant_ref_fields(node)
    if self.mode != 'event':
      # (event mode compares callback traces; the heap closure axioms only slow refutations down)
      ops.heap_wf(st, st.heap, self.ref_fields, self.field_kinds, self.value_kinds)
    self.class_axioms(st)
    return st

  def relevant_ref_fields(self, node):
    import re
    text = ast.unparse(node)
    c = self.contract
    specs = list(c.requires) + list(c.ensures) + [i for l in c.loops.values() for i in l.get('inv', ())]
    short = set(re.findall(r'\w+', text))
    for other in self.world.contracts.values():
      if other.name.rsplit('.', 1)[-1] in short:
        specs += list(other.requires) + list(other.ensures)
    words = short | set(re.findall(r'\w+', ' '.join(specs)))
    words |= set(re.findall(r'\w+', ' '.join(str(t) for t in c.types.values())))
    words |= set(re.findall(r'\w+', ' '.join(str(t) for t in c.locals_.values())))
    self.words = words
    out = []
    self.field_kinds = {}
    self.value_kinds = {}
    for f, t in sorted(self.world.field_types.items()):
      if f in words and sort_of(t) == U:
        out.append(f)
        decls = [ci.fields[f] for ci in self.world.classes.values() if f in ci.fields]
        pref = [self.world.classes[cn].fields[f] for cn in self.preferred_classes()
                if cn in self.world.classes and f in self.world.classes[cn].fields]
        if pref:
          decls = pref[:1]
        vks = {d.args[1].kind for d in decls if d.kind == 'dict' and len(d.args) > 1}
        if len(vks) == 1 and next(iter(vks)) in KIND_CODE and all(d.kind == 'dict' for d in decls):
          self.value_kinds[f] = KIND_CODE[next(iter(vks))]
        kinds = {d.kind for d in decls}
        if len(kinds) == 1:
          k = next(iter(kinds))
          if k in KIND_CODE:
            self.field_kinds[f] = KIND_CODE[k]
          elif k == 'obj':
            self.field_kinds[f] = 0
    return out

  def preferred_classes(self):
    """Classes named by the contract (receiver first): their field declarations win over homonyms."""
    c = self.contract
    out = []
    try:
      mi = self.world.module(c.module)
      cls = mi.class_of(c.local_name) if not c.source else None
      if cls:
        out.append(self.world.class_for(mi.name, cls))
    except SpecError:
      pass
    import re
    for t in list(c.types.values()) + list(c.locals_.values()):
      for wd in re.findall(r'\w+', str(t)):
        if wd in self.world.classes and wd not in out:
          out.append(wd)
    return out

  def class_axioms(self, st):
    """Subclass facts, restricted to the classes this function and its contracts mention."""
    import re
    words = getattr(self, 'words', set())
    declared = set(self.world.classes)
    names = {c for c in declared if c in words}
    for c in list(names):
      names.update(s_ for s_ in self.world.supers(c) if s_ in declared)
    prim = {'bool', 'int', 'str', 'tuple', 'set', 'frozenset', 'dict', 'list', 'NoneType', 'WeakSet'}
    allc = sorted(names | prim)
    st.assume(z3.Distinct(*[cls_const(nm) for nm in allc]))
    for cname in allc:
      sups = set(self.world.supers(cname)) if cname in declared else {cname}
      if cname == 'bool':
        sups.add('int')
      for other in allc:
        f = subcls(cls_const(cname), cls_const(other))
        st.assume(f if other in sups else z3.Not(f))
    for cname in allc:
      if cname in declared and getattr(self.world.classes[cname], 'final', False):
        cv = z3.Const(fresh_name('fc'), Cls)
        st.assume(z3.ForAll([cv], z3.Implies(subcls(cv, cls_const(cname)), cv == cls_const(cname))))
    st.assume(typeof(NONE) == cls_const('NoneType'))
    st.assume(z3.Not(truthy_u(NONE)))

  def run(self):
    c = self.contract
    modinfo = self.world.module(c.module)
    if c.source:
      import textwrap
      node = ast.parse(textwrap.dedent(c.source)).body[0]
    else:
      node = modinfo.find(c.local_name)
    if node is None:
      raise SpecError('target %s not found' % c.name)
    self.node = node
    self.cur_mod = modinfo
    self.base_line = node.lineno
    # a decorator can change what a call of the function does (caching, wrapping): only the ones whose
    # meaning the engine models are accepted, anything else leaves the supported subset
    for d in getattr(node, 'decorator_list', []):
      txt = ast.unparse(d)
      if txt not in ('property', 'staticmethod', 'classmethod', 'abc.abstractmethod') and not txt.startswith('functools.wraps('):
        raise Unsupported('decorator @%s on %s is not modelled' % (txt, c.name))
    reset_known()
    self.register_loops(node)
    self.check_private(node)
    for k in c.loops:
      if isinstance(k, int) and k >= len(loop_nodes_cached(node)):
        raise SpecError('contract mentions loop %d but %s has %d loops' % (k, c.name, len(loop_nodes_cached(node))))
    st = self.initial_state(node, modinfo)
    # nested functions addressed with <locals>: captured variables become ghost parameters
    for nm, ty in c.locals_.items():
      if nm.startswith('captured:'):
        st.env[nm[9:]] = ops.fresh_val(parse_type(ty), nm[9:], st)
    entry_env = dict(st.env)
    self.entry_cx = SpecCtx(entry_env, st.heap, st.pc, None, modinfo)
    for r in c.requires:
      st.assume(self.spec_bool(r, self.spec_ctx(st)))
    self.requires_hyps = list(st.pc)
    outcomes = []
    for kind, st1, v in self.exec_block(node.body, st):
      self.n_paths += 1
      outcomes.append((kind, st1, v))
      self.check_exit(kind, st1, v)
    self.outcomes = outcomes
    for ob in self.obligations:
      if ob.status is None:
        ob.hyps = ob.hyps + self.axioms
    return self.obligations

  def check_private(self, node):
    """Syntactic non-escape check for the locals the contract declares private."""
    priv = set(self.contract.private)
    if not priv:
      return
    parents = {}
    for p_ in ast.walk(node):
      for ch in ast.iter_child_nodes(p_):
        parents[id(ch)] = p_
    for n in ast.walk(node):
      if isinstance(n, ast.Name) and n.id in priv and isinstance(n.ctx, ast.Load):
        par = parents.get(id(n))
        ok = (isinstance(par, ast.Attribute) and isinstance(parents.get(id(par)), ast.Call)
              and parents[id(par)].func is par) \
            or (isinstance(par, ast.Compare) and n in par.comparators) \
            or isinstance(par, (ast.While, ast.If, ast.UnaryOp, ast.BoolOp)) \
            or (isinstance(par, ast.For) and par.iter is n)
        if not ok:
          raise Unsupported('private local %s escapes (used in %s)' % (n.id, type(par).__name__))

  def check_exit(self, kind, st, v):
    c = self.contract
    if kind in ('normal', 'return'):
      res = VNone if kind == 'normal' else v
      env = dict(self.entry_cx.env)
      env['result'] = res
      # locals at exit are visible to ghost specs under their own names unless shadowed
      for k_, v_ in st.env.items():
        env.setdefault('final_' + k_, v_)
      oldcx = SpecCtx(env, self.entry_cx.heap, st.pc, None, self.cur_mod)   # old(...) may mention result
      cx = SpecCtx(env, st.heap, st.pc, oldcx, self.cur_mod)
      for lm in c.exit_lemmas:
        st.assume(self.spec_bool(lm, cx))
      for i, e in enumerate(c.ensures):
        self.oblige('ensures/%d' % i, st, self.spec_bool(e, cx), detail=e)
      self.check_frame(st, cx)
    elif kind == 'raise':
      allowed = None
      for cls, cond in c.raises.items():
        if exc_isa(v.cls, cls) or (cls == 'OpaqueException' and v.cls == 'OpaqueException'):
          allowed = cond
          break
      if allowed is None:
        self.oblige('no-exception/%s@%s' % (v.cls, v.origin or ''), st, z3.BoolVal(False),
                    detail='an exception of class %s may escape' % v.cls)
      else:
        if allowed is not True:
          cx = SpecCtx(dict(self.entry_cx.env), self.entry_cx.heap, st.pc, None, self.cur_mod)
          self.oblige('raises/%s/only-if' % v.cls, st, self.spec_bool(allowed, cx), detail=str(allowed))
        env = dict(self.entry_cx.env)
        cx = SpecCtx(env, st.heap, st.pc, self.entry_cx, self.cur_mod)
        for i, e in enumerate(c.exc_ensures.get(v.cls, ())):
          self.oblige('exc_ensures/%s/%d' % (v.cls, i), st, self.spec_bool(e, cx), detail=e)
        if c.exc_ensures.get('*frame', True):
          self.check_frame(st, cx)
    else:
      raise Unsupported('%s escapes the function' % kind)

  def check_frame(self, st, cx):
    c = self.contract
    if c.modifies is not None and '*' in c.modifies:
      return
    objs, fields = [], {}
    objkinds = {}
    pre = self.entry_cx
    for m in (c.modifies or []):
      node = parse_spec(m)
      if isinstance(node, ast.Attribute):
        fields.setdefault(node.attr, []).append(to_u(self.sv(node.value, pre), pre))
      else:
        if isinstance(node, ast.Call) and isinstance(node.func, ast.Name) and node.func.id == 'contents':
          node = node.args[0]
        ov = self.sv(node, pre)
        objs.append(to_u(ov, pre))
        objkinds[len(objs) - 1] = ov.ty.kind if isinstance(ov, VRef) else None
    h0, h1 = pre.heap, st.heap
    o = z3.Const(fresh_name('o'), U)
    e = z3.Const(fresh_name('e'), U)
    i = z3.Const(fresh_name('i'), I)
    compkinds = {'mem': ('set',), 'dom': ('dict',), 'val': ('dict',), 'len': ('list', 'vtuple'),
                 'item': ('list', 'vtuple')}
    for comp, vars_, mk in (('mem', [o, e], lambda h: h.mem(o, e)), ('dom', [o, e], lambda h: h.dom(o, e)),
                            ('val', [o, e], lambda h: h.val(o, e)), ('len', [o], lambda h: h.len(o)),
                            ('item', [o, i], lambda h: h.item(o, i))):
      if h1.c.get(comp) is h0.c.get(comp):
        continue
      untouched = z3.And([h0.alloc(o)] + [o != m for j, m in enumerate(objs)
                                          if objkinds.get(j) in compkinds[comp] + (None, 'any', 'opt', 'union')])
      guard = untouched
      if comp == 'val':
        guard = z3.And(untouched, h0.dom(o, e))
      if comp == 'item':
        guard = z3.And(untouched, i >= 0, i < h0.len(o))
      self.oblige('frame/%s' % comp, st, ForAllT(vars_, z3.Implies(guard, mk(h1) == mk(h0))),
                  detail='only %s may be modified' % (c.modifies or 'nothing'))
    for nm in h1.names():
      if isinstance(nm, tuple) and h1.c.get(nm) is not h0.c.get(nm):
        f = nm[1]
        if f.startswith('has!'):
          base = f[4:]
          excl = fields.get(base, [])
        else:
          excl = fields.get(f, [])
        f1, f0 = h1.get(nm), h0.get(nm)
        self.oblige('frame/field:%s' % f, st,
                    ForAllT([o], z3.Implies(z3.And([h0.alloc(o)] + [o != b for b in excl]), f1(o) == f0(o))),
                    detail='field %s may only change on the objects listed in modifies' % f)


_ln_cache = {}


def loop_nodes_cached(node):
  from pvc.stmts import loop_nodes
  k = id(node)
  if k not in _ln_cache:
    _ln_cache[k] = loop_nodes(node)
  return _ln_cache[k]


# -------------------------------------------------------------------- discharge

def discharge(ob, timeout_ms=60000, want_model=True):
  if ob.status is not None:
    return ob
  t0 = time.time()
  s = z3.Solver()
  s.set('timeout', timeout_ms)
  s.add(ob.formula())
  r = s.check()
  ob.time = time.time() - t0
  ob.solver = 'z3'
  if r == z3.unsat:
    ob.status = 'proved'
  elif r == z3.sat:
    ob.status = 'refuted'
    if want_model:
      try:
        ob.model = str(s.model())[:4000]
      except Exception:   # model printing is best effort
        ob.model = '<model unavailable>'
  else:
    ob.status = 'unknown'
    ob.reason = s.reason_unknown()
    ob.smt2 = s.to_smt2()
  return ob


class FunctionResult(object):
  def __init__(self, name):
    self.name = name
    self.obligations = []
    self.status = None          # 'proved' | 'refuted' | 'undecided' | 'error'
    self.message = ''
    self.source_sha = ''
    self.func_hash = ''
    self.paths = 0
    self.time = 0.0

  def summary(self):
    return dict(function=self.name, status=self.status, message=self.message,
                obligations=len(self.obligations),
                discharged=sum(1 for o in self.obligations if o.status == 'proved'),
                paths=self.paths, time_s=round(self.time, 3), func_hash=self.func_hash,
                by_solver=_by_solver(self.obligations),
                failed=[dict(name=o.name, status=o.status, detail=o.detail,
                             model=(o.model or '')[:1500]) for o in self.obligations
                        if o.status != 'proved'])


def _by_solver(obs):
  d = {}
  for o in obs:
    if o.status == 'proved':
      d[o.solver] = d.get(o.solver, 0) + 1
  return d


def verify_event(world, contract, res, timeout_ms):
  """Trace equivalence of the real function with its specification program."""
  mi = world.module(contract.module)
  res.source_sha = mi.sha256
  node = mi.find(contract.local_name)
  if node is None:
    raise SpecError('target %s not found' % contract.name)
  res.func_hash = func_source_hash(node)
  for d in getattr(node, 'decorator_list', []):
    txt = ast.unparse(d)
    if txt not in ('property', 'staticmethod', 'classmethod', 'abc.abstractmethod') and not txt.startswith('functools.wraps('):
      raise Unsupported('decorator @%s on %s is not modelled' % (txt, contract.name))
  core.reset_fresh()
  impl = eventmod.run_event(world, contract, node, mi, Exec)
  spec_node = eventmod.parse_spec_program(contract.spec)
  spec = eventmod.run_event(world, contract, spec_node, mi, Exec,
                            shared=(impl.param_values, impl.entry_heap, list(impl.requires_hyps), impl))
  res.paths = impl.n_paths
  if not impl.segments:
    res.status = 'error'
    res.message = 'no segment produced (vacuous)'
    return res
  # the iterator handle / callback results of loop k are shared between the sides by loop label; loop
  # labels are assigned in order of first encounter, so try every matching of the two label sets
  import itertools
  ni, ns = len(impl.event_loop_ids), len(spec.event_loop_ids)
  best = None
  perms = list(itertools.permutations(range(ns))) if ni == ns and ns <= 3 else [tuple(range(ns))]
  for perm in perms:
    obs = []

    def oblige(name, hyps, goal, detail, obs=obs):
      obs.append(Obligation(name, hyps, goal, detail))
    mapping = {j: perm[j] for j in range(ns)}
    eventmod.compare(impl.segments, rename_loop_symbols(eventmod.relabel(spec.segments, mapping), mapping), oblige)
    for ob in obs:
      discharge(ob, timeout_ms)
    bad = sum(1 for o in obs if o.status != 'proved')
    if best is None or bad < best[0]:
      best = (bad, obs)
    if bad == 0:
      break
  obs = best[1] + impl.obligations      # + safety obligations met on the way
  for ob in impl.obligations:
    discharge(ob, timeout_ms)
  res.obligations = obs
  if not obs:
    res.status = 'error'
    res.message = 'zero obligations generated (vacuous)'
    return res
  if all(o.status == 'proved' for o in obs):
    res.status = 'proved'
  elif any(o.status == 'refuted' for o in obs):
    res.status = 'refuted'
  else:
    res.status = 'undecided'
    res.message = 'solver returned unknown on: ' + ', '.join(o.name for o in obs if o.status == 'unknown')
  return res


def rename_loop_symbols(segments, mapping):
  """Symbols named after a loop label (callback results, iterator handles) follow the relabelling."""
  if all(k == v for k, v in mapping.items()):
    return segments
  import re
  cache = {}

  def ren(t):
    if not z3.is_expr(t):
      return t
    key = t.get_id()
    if key in cache:
      return cache[key]
    subs = []
    for c in _consts_of(t):
      nm = c.decl().name()
      m = re.search(r'head:(\d+)', nm)
      if m and int(m.group(1)) in mapping:
        new = nm.replace('head:%s' % m.group(1), 'head:%d' % mapping[int(m.group(1))])
        subs.append((c, z3.Const(new, c.sort())))
    r = z3.substitute(t, *subs) if subs else t
    cache[key] = r
    return r
  out = []
  for s in segments:
    tr = []
    for e in s.trace:
      e2 = ops.Event(e.kind, ren(e.fn) if z3.is_expr(e.fn) else e.fn, [ren(a) for a in e.args],
                     {k: ren(v) for k, v in e.kwargs.items()},
                     ren(e.star) if e.star is not None else None, ren(e.dstar) if e.dstar is not None else None)
      tr.append(e2)
    end = s.end
    if end[0] == 'exit':
      end = (end[0], end[1], ren(end[2]) if end[2] is not None else None)
    else:
      end = (end[0], end[1], [ren(x) for x in end[2]])
    out.append(eventmod.Segment(s.start, [ren(p) for p in s.pc], tr, end))
  return out


def _consts_of(t, acc=None, seen=None):
  acc = [] if acc is None else acc
  seen = set() if seen is None else seen
  if t.get_id() in seen:
    return acc
  seen.add(t.get_id())
  if z3.is_const(t) and t.decl().kind() == z3.Z3_OP_UNINTERPRETED:
    acc.append(t)
  elif z3.is_quantifier(t):
    _consts_of(t.body(), acc, seen)
  else:
    for c in t.children():
      _consts_of(c, acc, seen)
  return acc


def verify_contract(world, contract, timeout_ms=60000):
  """Generate and discharge all obligations of one function. Never raises."""
  res = FunctionResult(contract.name)
  t0 = time.time()
  core.reset_fresh()
  try:
    if contract.mode == 'event':
      return verify_event(world, contract, res, timeout_ms)
    ex = Exec(world, contract)
    mi = world.module(contract.module)
    res.source_sha = mi.sha256
    obs = ex.run()
    res.func_hash = func_source_hash(ex.node)
    res.paths = ex.n_paths
    res.obligations = obs
    if not obs:
      res.status = 'error'
      res.message = 'zero obligations generated (vacuous contract)'
      return res
    for ob in obs:
      discharge(ob, timeout_ms)
    if all(o.status == 'proved' for o in obs):
      res.status = 'proved'
    elif any(o.status == 'refuted' for o in obs):
      res.status = 'refuted'
    else:
      res.status = 'undecided'
      res.message = 'solver returned unknown on: ' + ', '.join(o.name for o in obs if o.status == 'unknown')
    # vacuity guard: the precondition must be satisfiable and at least one path must reach an exit
    s = z3.Solver()
    s.set('timeout', 10000)
    s.add(*ex.requires_hyps)
    if s.check() == z3.unsat:
      res.status = 'error'
      res.message = 'requires is unsatisfiable (vacuous)'
    elif ex.n_paths == 0:
      res.status = 'error'
      res.message = 'no feasible path reaches an exit (vacuous)'
  except (Unsupported, SpecError) as e:
    res.status = 'undecided'
    res.message = '%s: %s' % (type(e).__name__, e)
  except RecursionError as e:
    res.status = 'undecided'
    res.message = 'RecursionError'
  except Exception as e:   # engine bug: exit 3, never a verdict
    import traceback
    res.status = 'error'
    res.message = 'engine error: %s: %s | %s' % (type(e).__name__, e, traceback.format_exc()[-600:])
  finally:
    res.time = time.time() - t0
  return res
