"""Forking evaluator for the expressions of the real code."""
import ast
import z3

from pvc.core import *  # noqa: F401,F403
from pvc import ops
from pvc.ops import to_u, from_u, truthy, as_setpred, note_alloc
from pvc.spec_eval import const_val, elem_type, ite_val

BUILTIN_NAMES = {
    'len', 'isinstance', 'hasattr', 'getattr', 'setattr', 'set', 'frozenset', 'dict', 'list', 'tuple',
    'sorted', 'zip', 'all', 'any', 'hash', 'type', 'str', 'int', 'bool', 'range', 'enumerate',
    'reversed', 'iter', 'next', 'callable', 'id', 'repr', 'super', 'print', 'abs', 'float', 'map',
    'filter', 'min', 'max', 'sum', 'issubclass', 'object', 'NotImplementedError', 'ValueError',
    'TypeError', 'KeyError', 'AssertionError', 'LookupError', 'AttributeError', 'NameError',
    'Exception', 'UnboundLocalError', 'IndexError', 'StopIteration', 'RuntimeError', 'OSError',
    'BaseException', 'NotImplemented', 'eval', 'locals', 'globals',
}


_assigned_cache = {}


def _assigned_names(fnode):
  k = id(fnode)
  if k not in _assigned_cache:
    names = set()
    for m in ast.walk(fnode):
      if isinstance(m, ast.Name) and isinstance(m.ctx, ast.Store):
        names.add(m.id)
    _assigned_cache[k] = (fnode, names)
  return _assigned_cache[k][1]


class ExprMixin(object):

  # ---------------------------------------------------------------- names

  def resolve_global(self, name, modinfo):
    if modinfo is not None:
      p = modinfo.canonical(name)
      if p is not None:
        return VGlobal(p)
    if name in BUILTIN_NAMES:
      return VBuiltin(name)
    return None

  # ---------------------------------------------------------------- attribute reads

  def read_attr(self, base, attr, st, spec=False):
    if isinstance(base, VGlobal):
      return VGlobal(base.path + '.' + attr)
    if isinstance(base, VRef):
      cls = base.ty.name if base.ty.kind == 'obj' else None
      if base.ty.kind == 'opt' and base.ty.args and base.ty.args[0].kind == 'obj':
        cls = base.ty.args[0].name
      if cls and self.world.is_property(cls, attr):
        if spec:
          rt = self.pure_ret_type('prop.' + attr)
          if rt is None:
            raise SpecError('property %s not declared pure for specs' % attr)
          return self.pure_app('prop.' + attr, [base], rt, st)
        return VBound(base, '@property:' + attr)
      fty = self.world.field_type(cls, attr)
      if fty is None:
        if spec:
          raise SpecError('unknown field %s of %r' % (attr, base))
        return VBound(base, attr)
      f = st.heap.fld(attr, sort_of(fty))
      t = f(base.t)
      if sort_of(fty) == B:
        return VBool(t)
      if sort_of(fty) == I:
        return VInt(t)
      if sort_of(fty) == S:
        return VStr(t)
      v = from_u(t, fty, st)
      if isinstance(v, VRef) and not spec:
        if fty.kind in ('set', 'dict', 'list', 'vtuple', 'obj', 'callable'):
          st.assume(v.t != NONE)
        if fty.kind in ('list', 'vtuple'):
          st.assume(st.heap.len(v.t) >= 0)
        if fty.kind == 'opt' or (fty.kind in ('list', 'vtuple') and fty.args
                                 and fty.args[0].kind in ('obj', 'str', 'int')) \
            or (fty.kind == 'dict' and fty.args and fty.args[0].kind == 'obj'):
          ops.assume_type(v, st)
        note_alloc(v, st)
      return v
    if isinstance(base, VTuple) and hasattr(base, 'fields') and attr in base.fields:
      return base.items[base.fields.index(attr)]
    if spec:
      raise SpecError('attribute %s of %r' % (attr, base))
    return VBound(base, attr)

  # ---------------------------------------------------------------- binary operators

  def binop(self, op, a, b, st, spec=False):
    if isinstance(a, VInt) and isinstance(b, VInt):
      if isinstance(op, ast.Add):
        return VInt(a.t + b.t)
      if isinstance(op, ast.Sub):
        return VInt(a.t - b.t)
      if isinstance(op, ast.Mult):
        return VInt(a.t * b.t)
    if isinstance(a, VStr) and isinstance(b, VStr) and isinstance(op, ast.Add):
      return VStr(z3.Concat(a.t, b.t))
    if isinstance(a, VStr) and isinstance(op, ast.Mod):
      args = b.items if isinstance(b, VTuple) else [b]
      return self.pure_app('str.%', [a] + list(args), 'str', st)
    if isinstance(a, VTuple) and isinstance(b, VTuple) and isinstance(op, ast.Add):
      return VTuple(a.items + b.items)
    setlike = lambda v: isinstance(v, VSetExpr) or (isinstance(v, VRef) and v.ty.kind == 'set')
    if setlike(a) and (setlike(b) or isinstance(b, VRef)) and isinstance(op, (ast.BitOr, ast.BitAnd, ast.Sub)):
      e = self.set_binop(op, a, b, st)
      if spec:
        return e
      ety = elem_type(a)
      return ops.new_set(st, e.pred, Ty('set', (ety,)))
    if isinstance(a, VRef) and a.ty.kind in ('list', 'vtuple') and isinstance(op, ast.Add):
      return self.concat_seq(a, b, st)
    if isinstance(b, VRef) and b.ty.kind in ('list', 'vtuple') and isinstance(a, VTuple) and isinstance(op, ast.Add):
      return self.concat_seq(a, b, st)
    if getattr(self, 'mode', 'vc') == 'event':
      # opaque operands: the operator application is an uninterpreted pure function of its operands
      return self.pure_app('binop.' + type(op).__name__, [a, b], 'Any', st)
    raise Unsupported('binary operator %s on %r, %r' % (type(op).__name__, a, b))

  def seq_view(self, v, st):
    """(length term, item function) of a tuple / list value."""
    if isinstance(v, VTuple):
      us = [to_u(x, st) for x in v.items]

      def item(i):
        t = us[-1] if us else NONE
        for idx in range(len(us) - 2, -1, -1):
          t = z3.If(i == idx, us[idx], t)
        return t
      return z3.IntVal(len(us)), item
    if isinstance(v, VRef) and v.ty.kind in ('list', 'vtuple'):
      h = st.heap
      return h.len(v.t), (lambda i: h.item(v.t, i))
    raise Unsupported('not a sequence: %r' % (v,))

  def concat_seq(self, a, b, st):
    la, ia = self.seq_view(a, st)
    lb, ib = self.seq_view(b, st)
    ety = elem_type(a) if isinstance(a, VRef) else elem_type(b)
    kind = a.ty.kind if isinstance(a, VRef) else b.ty.kind
    return ops.new_list_sym(st, la + lb, lambda i: z3.If(i < la, ia(i), ib(i - la)), Ty(kind, (ety,)))

  # ---------------------------------------------------------------- expressions (forking)

  def ev(self, n, st):
    m = getattr(self, 'ev_' + type(n).__name__, None)
    if m is None:
      raise Unsupported('expression %s' % type(n).__name__)
    return m(n, st)

  def ev_many(self, nodes, st):
    """Evaluate expressions left to right; yields (state, [values]) or (state, Exc)."""
    if not nodes:
      yield st, []
      return
    for st1, v in self.ev(nodes[0], st):
      if isinstance(v, Exc):
        yield st1, v
        continue
      for st2, rest in self.ev_many(nodes[1:], st1):
        if isinstance(rest, Exc):
          yield st2, rest
        else:
          yield st2, [v] + rest

  def ev_Constant(self, n, st):
    if n.value is Ellipsis:
      yield st, VRef(global_const('Ellipsis'), ANY)
      return
    yield st, const_val(n.value)

  def ev_Name(self, n, st):
    if n.id in st.env:
      yield st, st.env[n.id]
      return
    g = self.resolve_global(n.id, self.cur_mod)
    if g is None:
      fnode = getattr(self, 'cur_fn_node', None) or getattr(self, 'node', None)
      if fnode is not None and n.id in _assigned_names(fnode):
        # a local that is not bound on this path (e.g. after a `with` whose __exit__ swallowed an exception)
        yield st, Exc('UnboundLocalError')
        return
      raise Unsupported('unknown name %s' % n.id)
    yield st, g

  def ev_Tuple(self, n, st):
    if any(isinstance(e, ast.Starred) for e in n.elts):
      raise Unsupported('starred in tuple display')
    for st1, vals in self.ev_many(n.elts, st):
      yield st1, (vals if isinstance(vals, Exc) else VTuple(vals))

  def ev_List(self, n, st):
    for st1, vals in self.ev_many(n.elts, st):
      if isinstance(vals, Exc):
        yield st1, vals
        continue
      us = [to_u(v, st1) for v in vals]
      ety = vals[0].ty if vals and isinstance(vals[0], VRef) else ANY
      yield st1, ops.new_list(st1, us, Ty('list', (ety,)))

  def ev_Set(self, n, st):
    for st1, vals in self.ev_many(n.elts, st):
      if isinstance(vals, Exc):
        yield st1, vals
        continue
      us = [to_u(v, st1) for v in vals]
      yield st1, ops.new_set(st1, lambda e: z3.Or([e == u for u in us]))

  def ev_Dict(self, n, st):
    if any(k is None for k in n.keys):
      raise Unsupported('dict unpacking display')
    for st1, vals in self.ev_many(list(n.keys) + list(n.values), st):
      if isinstance(vals, Exc):
        yield st1, vals
        continue
      k = len(n.keys)
      pairs = [(to_u(vals[i], st1), to_u(vals[k + i], st1)) for i in range(k)]
      yield st1, ops.new_dict(st1, pairs)

  def ev_Attribute(self, n, st):
    for st1, base in self.ev(n.value, st):
      if isinstance(base, Exc):
        yield st1, base
        continue
      if isinstance(base, VRef) and base.ty.kind == 'opt' and base.ty.args and base.ty.args[0].kind == 'obj' \
          and getattr(self, 'mode', 'vc') != 'event':
        # attribute of an Optional[obj]: AttributeError when it is None, the object otherwise
        s_none = st1.fork()
        s_none.assume(base.t == NONE)
        if self.feasible(s_none):
          yield s_none, Exc('AttributeError')
        st1.assume(base.t != NONE)
        base = VRef(base.t, base.ty.args[0])
        ops.assume_type(base, st1)
      v = self.read_attr(base, n.attr, st1)
      if isinstance(v, VBound) and v.name.startswith('@property:'):
        yield from self.call_property(v.recv, v.name[len('@property:'):], st1)
      else:
        yield st1, v

  def ev_Subscript(self, n, st):
    if isinstance(n.slice, ast.Slice):
      yield from self.ev_slice(n, st)
      return
    for st1, vals in self.ev_many([n.value, n.slice], st):
      if isinstance(vals, Exc):
        yield st1, vals
        continue
      yield from self.subscript(vals[0], vals[1], st1)

  def subscript(self, base, idx, st):
    if isinstance(base, VTuple):
      if isinstance(idx, VInt) and z3.is_int_value(idx.t):
        i = idx.t.as_long()
        if -len(base.items) <= i < len(base.items):
          yield st, base.items[i]
        else:
          yield st, Exc('IndexError')
        return
      raise Unsupported('symbolic index into fixed tuple')
    if isinstance(base, VRef):
      k = base.ty.kind
      if k == 'dict':
        ku = to_u(idx, st)
        present = st.heap.dom(base.t, ku)
        vt = base.ty.args[1] if len(base.ty.args) > 1 else ANY
        for st2, ok in self.fork(st, present):
          if ok:
            v = from_u(st2.heap.val(base.t, ku), vt, st2)
            ops.assume_type(v, st2)
            yield st2, note_alloc(v, st2)
          else:
            yield st2, Exc('KeyError')
        return
      if k in ('list', 'vtuple'):
        if not isinstance(idx, VInt):
          raise Unsupported('list index type')
        n_ = st.heap.len(base.t)
        i = idx.t
        if z3.is_int_value(i) and i.as_long() < 0:
          i = n_ + i
        for st2, ok in self.fork(st, z3.And(i >= 0, i < n_)):
          if ok:
            it = st2.heap.item(base.t, i)
            st2.assume(st2.heap.lmem(base.t, it))
            v = from_u(it, base.ty.elem, st2)
            ops.assume_type(v, st2)
            yield st2, note_alloc(v, st2)
          else:
            yield st2, Exc('IndexError')
        return
      if k == 'obj':
        q = self.world.find_method(base.ty.name, '__getitem__')
        if q is not None:
          yield from self.call_qualified(q, [base, idx], {}, st, self_val=base)
          return
        rt = self.pure_ret_type('%s.__getitem__' % base.ty.name)
        if rt is not None:
          yield st, self.pure_app('%s.__getitem__' % base.ty.name, [base, idx], rt, st)
          return
    if getattr(self, 'mode', 'vc') == 'event' and (isinstance(base, VBound) or isinstance(base, VRef) and base.ty.kind in ('any', 'opt', 'union', 'obj', 'callable')):
      # an opaque container: indexing is an observable action of that object
      yield from self.call_opaque(VBound(base, '__getitem__'), [idx], {}, st)
      return
    raise Unsupported('subscript of %r' % (base,))

  def ev_slice(self, n, st):
    sl = n.slice
    if sl.step is not None:
      raise Unsupported('slice step')
    for st1, base in self.ev(n.value, st):
      if isinstance(base, Exc):
        yield st1, base
        continue
      lo_n = [sl.lower] if sl.lower is not None else []
      hi_n = [sl.upper] if sl.upper is not None else []
      for st2, vals in self.ev_many(lo_n + hi_n, st1):
        if isinstance(vals, Exc):
          yield st2, vals
          continue
        lo = vals[0] if lo_n else None
        hi = vals[-1] if hi_n else None
        if getattr(self, 'mode', 'vc') == 'event' and (isinstance(base, VBound) or isinstance(base, VRef) and base.ty.kind in ('any', 'opt', 'union', 'callable')):
          # slicing an opaque container: an observable action of that object (bounds are its arguments)
          yield from self.call_opaque(VBound(base, '__getitem__slice'), [VNone if lo is None else lo, VNone if hi is None else hi], {}, st2)
          continue
        yield st2, self.slice_seq(base, lo, hi, st2)

  def slice_seq(self, base, lo, hi, st):
    if isinstance(base, VTuple):
      l = lo.t.as_long() if lo is not None and z3.is_int_value(lo.t) else (None if lo is None else 'x')
      h = hi.t.as_long() if hi is not None and z3.is_int_value(hi.t) else (None if hi is None else 'x')
      if l == 'x' or h == 'x':
        raise Unsupported('symbolic slice of fixed tuple')
      return VTuple(base.items[l:h])
    ln, item = self.seq_view(base, st)

    def norm(v, default):
      if v is None:
        return default
      t = v.t
      t = z3.If(t < 0, t + ln, t)
      return z3.If(t < 0, 0, z3.If(t > ln, ln, t))
    l, h = norm(lo, z3.IntVal(0)), norm(hi, ln)
    newlen = z3.If(h > l, h - l, 0)
    return ops.new_list_sym(st, newlen, lambda i: item(i + l), Ty(base.ty.kind, (base.ty.elem,)))

  def ev_UnaryOp(self, n, st):
    for st1, v in self.ev(n.operand, st):
      if isinstance(v, Exc):
        yield st1, v
      elif isinstance(n.op, ast.Not):
        yield st1, VBool(z3.Not(self.truth(v, st1)))
      elif isinstance(n.op, ast.USub) and isinstance(v, VInt):
        yield st1, VInt(z3.simplify(-v.t))
      else:
        raise Unsupported('unary operator')

  def ev_BoolOp(self, n, st):
    yield from self._boolop(n.values, isinstance(n.op, ast.And), st)

  def _boolop(self, values, is_and, st):
    for st1, v in self.ev(values[0], st):
      if isinstance(v, Exc) or len(values) == 1:
        yield st1, v
        continue
      t = self.truth(v, st1)
      for st2, taken in self.fork(st1, t):
        if taken == is_and:
          yield from self._boolop(values[1:], is_and, st2)
        else:
          yield st2, v

  def ev_IfExp(self, n, st):
    for st1, c in self.ev(n.test, st):
      if isinstance(c, Exc):
        yield st1, c
        continue
      for st2, taken in self.fork(st1, self.truth(c, st1)):
        yield from self.ev(n.body if taken else n.orelse, st2)

  def ev_Compare(self, n, st):
    if len(n.ops) > 1:
      raise Unsupported('chained comparison')
    for st1, vals in self.ev_many([n.left, n.comparators[0]], st):
      if isinstance(vals, Exc):
        yield st1, vals
        continue
      a, b = vals
      op = n.ops[0]
      if isinstance(op, (ast.Eq, ast.NotEq)):
        yield from self.py_equals(a, b, st1, negate=isinstance(op, ast.NotEq))
      else:
        yield st1, VBool(self.compare(op, a, b, st1))

  def py_equals(self, a, b, st, negate=False):
    """`a == b`: user classes with a contracted __eq__ are called, everything else is modelled."""
    for x in (a, b):
      if isinstance(x, VRef) and x.ty.kind == 'obj':
        ci = self.world.classes.get(x.ty.name)
        if ci is not None and ci.eq == 'method':
          q = self.world.find_method(x.ty.name, '__eq__')
          other = b if x is a else a
          for st2, r in self.call_qualified(q, [x, other], {}, st, self_val=x):
            if isinstance(r, Exc):
              yield st2, r
            else:
              t = truthy(r, st2)
              yield st2, VBool(z3.Not(t) if negate else t)
          return
    t = self.eq_values(a, b, st)
    yield st, VBool(z3.Not(t) if negate else t)

  _DUNDER = {ast.BitOr: '__or__', ast.Sub: '__sub__', ast.Add: '__add__', ast.BitAnd: '__and__', ast.Mult: '__mul__'}

  def ev_BinOp(self, n, st):
    for st1, vals in self.ev_many([n.left, n.right], st):
      if isinstance(vals, Exc):
        yield st1, vals
        continue
      a, b = vals
      if isinstance(a, VRef) and a.ty.kind == 'obj' and type(n.op) in self._DUNDER:
        q = self.world.find_method(a.ty.name, self._DUNDER[type(n.op)])
        if q is not None:
          yield from self.call_qualified(q, [a, b], {}, st1, self_val=a)
          continue
      if getattr(self, 'mode', 'vc') == 'event' and isinstance(n.op, ast.Add) and not any(isinstance(x, VStr) for x in (a, b)) and any(
          isinstance(x, VBound) or isinstance(x, VRef) and x.ty.kind in ('any', 'callable') for x in (a, b)):
        # + applied to an opaque object (sequence concatenation): that object's __add__/__radd__, an observable action
        yield from self.call_opaque(None, [a, b], {}, st1, label='operator.' + type(n.op).__name__)
        continue
      yield st1, self.binop(n.op, a, b, st1)

  def ev_Lambda(self, n, st):
    f = VFunc(n, dict(st.env), self.cur_mod, '<lambda>')
    f.home_depth = self.inline_depth
    yield st, f

  def ev_JoinedStr(self, n, st):
    yield st, VStr(fresh('fstr', S))

  def ev_Starred(self, n, st):
    raise Unsupported('starred expression outside a call')

  # comprehensions ----------------------------------------------------------

  def _comp_source(self, comp, st):
    if len(comp.generators) != 1:
      raise Unsupported('nested comprehension generators')
    return comp.generators[0]

  def ev_SetComp(self, n, st):
    g = self._comp_source(n, st)
    for st1, src in self.ev(g.iter, st):
      if isinstance(src, Exc):
        yield st1, src
        continue
      cx = self.spec_ctx(st1)
      env2 = dict(st1.env)
      env2['__it'] = src
      cx.env = env2
      g2 = ast.comprehension(target=g.target, iter=ast.Name('__it', ast.Load()), ifs=g.ifs, is_async=0)
      e = self.spec_setcomp(ast.SetComp(elt=n.elt, generators=[g2]), cx)
      yield st1, ops.new_set(st1, e.pred, Ty('set', (e.ty.elem if e.ty.kind == 'set' else ANY,)))

  def ev_GeneratorExp(self, n, st):
    # only meaningful as an argument of all/any/tuple/set/frozenset/list/sorted: handled there
    raise Unsupported('bare generator expression')

  def opaque_iterable(self, src):
    return getattr(self, 'mode', 'vc') == 'event' and (
        isinstance(src, VBound) or isinstance(src, VRef) and src.ty.kind in ('any', 'opt', 'union', 'callable'))

  def opaque_comp(self, kind, elt, g, src, st):
    """A comprehension over an opaque iterable (event mode): ONE observable action labelled by its own text, applied
    to the iterable and to the values of the local names it mentions (what runs per element is fixed by the text)."""
    bound = {x.id for x in ast.walk(g.target) if isinstance(x, ast.Name)}
    free = sorted({x.id for part in [elt] + list(g.ifs) for x in ast.walk(part)
                   if isinstance(x, ast.Name) and x.id not in bound and x.id in st.env})
    label = 'comprehension:%s:%s for %s%s' % (kind, ast.dump(elt), ast.dump(g.target),
                                              ''.join(' if ' + ast.dump(i) for i in g.ifs))
    yield from self.call_opaque(None, [src] + [st.env[x] for x in free], {}, st, label=label)

  def ev_ListComp(self, n, st):
    yield from self.list_comp(n, st, 'list')

  def list_comp(self, n, st, kind):
    g = self._comp_source(n, st)
    for st1, src in self.ev(g.iter, st):
      if isinstance(src, Exc):
        yield st1, src
        continue
      if self.opaque_iterable(src):
        yield from self.opaque_comp(kind, n.elt, g, src, st1)
        continue
      yield st1, self.comp_to_seq(n.elt, g, src, st1, kind)

  def comp_to_seq(self, elt, g, src, st, kind):
    """[f(x) for x in src if c(x)]  ->  fresh sequence with a (possibly partial) specification."""
    cx = self.spec_ctx(st)
    if isinstance(src, VTuple) and not g.ifs:
      items = []
      for it in src.items:
        c2 = self.bind_target(g.target, it, cx)
        items.append(self.sv(elt, c2))
      if kind == 'tuple':
        return VTuple(items)
      return ops.new_list(st, [to_u(i, st) for i in items])
    if isinstance(src, VRef) and src.ty.kind in ('list', 'vtuple') and not g.ifs:
      h = st.heap
      ety = src.ty.elem

      calls = {}

      def item(i, side=None):
        saved = getattr(self, 'comp_calls', None), getattr(self, 'comp_side', None)
        self.comp_calls, self.comp_side = calls, side
        try:
          c2 = self.bind_target(g.target, from_u(h.item(src.t, i), ety, cx), cx)
          return to_u(self.sv(elt, c2), c2)
        finally:
          self.comp_calls, self.comp_side = saved
      # element expressions may call functions under total frame-free contracts: their ensures hold
      # for every element (see SpecMixin.comp_contract_call)
      side = []
      i0 = z3.Const(fresh_name('ci'), I)
      self.comp_defined = []
      try:
        item(i0, side)
        defined = self.comp_defined
      finally:
        self.comp_defined = None
      if defined:
        # the element expression subscripts a dict: every key must be present, else KeyError escapes
        self.oblige('no-exception/KeyError@comprehension', st,
                    ForAllT([i0], z3.Implies(z3.And(i0 >= 0, i0 < h.len(src.t)), z3.And(defined))),
                    detail='a dict subscript inside a comprehension element may raise KeyError')
      if side:
        st.assume(ForAllT([i0], z3.Implies(z3.And(i0 >= 0, i0 < h.len(src.t)), z3.And(side))))
        if not getattr(self, '_box_axioms', False) and hasattr(self, 'axioms'):
          # boxing is injective (elsewhere stated per term; here the terms are under a quantifier)
          self._box_axioms = True
          sv_, iv_, bv_ = z3.Const('bx!s', S), z3.Const('bx!i', I), z3.Const('bx!b', B)
          self.axioms.append(z3.ForAll([sv_], unbox_str(box_str(sv_)) == sv_, patterns=[box_str(sv_)]))
          self.axioms.append(z3.ForAll([iv_], unbox_int(box_int(iv_)) == iv_, patterns=[box_int(iv_)]))
      return ops.new_list_sym(st, h.len(src.t), item, Ty('list' if kind == 'list' else 'vtuple', (ANY,)))
    # filtered or set-sourced: result is some sequence whose element set is the image (order unknown)
    srcp = as_setpred(src, st)
    ety = elem_type(src)
    identity = isinstance(elt, ast.Name) and isinstance(g.target, ast.Name) and elt.id == g.target.id
    ln = fresh('complen', I)
    itf = ufn(fresh_name('compitem'), I, U)
    x = z3.Const(fresh_name('cx'), U)
    i = z3.Const(fresh_name('ci'), I)
    c2 = self.bind_target(g.target, from_u(x, ety, cx), cx)
    conds = z3.And([srcp(x)] + [truthy(self.sv(f, c2), c2) for f in g.ifs])
    mp = (lambda e: z3.substitute(conds, (x, e))) if identity else None
    r = ops.new_list_sym(st, ln, lambda i: itf(i), Ty('list' if kind == 'list' else 'vtuple', (ety if identity else ANY,)),
                         mempred=mp)
    st.assume(ln >= 0)
    if identity:
      wit = ufn(fresh_name('compidx'), U, I)
      st.assume(ForAllT([i], z3.Implies(z3.And(i >= 0, i < ln),
                                           z3.And(substitute_pred(conds, x, itf(i)), wit(itf(i)) == i))))
      st.assume(ForAllT([x], z3.Implies(conds, z3.And(wit(x) >= 0, wit(x) < ln, itf(wit(x)) == x))))
      # source sets contain no duplicates => result is duplicate-free when the source is a set
    else:
      img = to_u(self.sv(elt, c2), c2)
      src_of = ufn(fresh_name('compsrc'), I, U)
      st.assume(ForAllT([i], z3.Implies(z3.And(i >= 0, i < ln),
                                           z3.And(substitute_pred(conds, x, src_of(i)),
                                                  itf(i) == z3.substitute(img, (x, src_of(i)))))))
      wit = ufn(fresh_name('compidx'), U, I)
      st.assume(ForAllT([x], z3.Implies(conds, z3.And(wit(x) >= 0, wit(x) < ln, itf(wit(x)) == img))))
    return r

  def ev_DictComp(self, n, st):
    g = self._comp_source(n, st)
    if g.ifs:
      raise Unsupported('filtered dict comprehension')
    for st1, src in self.ev(g.iter, st):
      if isinstance(src, Exc):
        yield st1, src
        continue
      yield st1, self.dict_comp(n, g, src, st1)

  def dict_comp(self, n, g, src, st):
    """{k(x): v(x) for x in src}: supported when k is the comprehension variable itself
    (or the first component of an items() pair)."""
    cx = self.spec_ctx(st)
    r = ops.alloc_obj(st, Ty('dict', (ANY, ANY)), 'dict')
    olddom, oldval = st.heap.get('dom'), st.heap.get('val')
    if isinstance(src, VBound) and src.name == 'items()':
      d = src.recv
      kt = d.ty.args[0] if d.ty.args else ANY
      vt = d.ty.args[1] if len(d.ty.args) > 1 else ANY
      h = st.heap
      if not (isinstance(g.target, ast.Tuple) and len(g.target.elts) == 2
              and isinstance(n.key, ast.Name) and n.key.id == g.target.elts[0].id):
        raise Unsupported('dict comprehension over items() with a computed key')

      def valfn(k):
        c2 = cx.bind(g.target.elts[0].id, from_u(k, kt, cx)).bind(
            g.target.elts[1].id, from_u(h.val(d.t, k), vt, cx))
        return c2
      return self._finish_dictcomp(n, r, lambda k: h.dom(d.t, k), valfn, st, olddom, oldval)
    srcp = as_setpred(src, st)
    ety = elem_type(src)
    if not (isinstance(g.target, ast.Name) and isinstance(n.key, ast.Name) and n.key.id == g.target.id):
      raise Unsupported('dict comprehension with a computed key')
    return self._finish_dictcomp(n, r, srcp, lambda k: cx.bind(g.target.id, from_u(k, ety, cx)),
                                 st, olddom, oldval)

  def _finish_dictcomp(self, n, r, domp, ctx_of, st, olddom, oldval):
    # values may allocate (e.g. set(x)): each value is described by an uninterpreted function
    # of the key plus an axiom giving its contents.
    valf = ufn(fresh_name('dcval'), U, U)
    k = z3.Const(fresh_name('dk'), U)
    c2 = ctx_of(k)
    vnode = n.value
    if isinstance(vnode, ast.Call) and isinstance(vnode.func, ast.Name) and vnode.func.id in ('set', 'frozenset'):
      # fresh set per key, contents given by the argument
      argp = self._spec_setof(vnode, c2).pred if vnode.args else (lambda e: z3.BoolVal(False))
      e = z3.Const(fresh_name('de'), U)
      oldmem = st.heap.get('mem')
      oldalloc = st.heap.get('alloc')
      k2 = z3.Const(fresh_name('dk'), U)
      # freshness and injectivity of the per-key sets
      st.assume(ForAllT([k], z3.Implies(domp(k), z3.And(z3.Not(oldalloc(valf(k))), valf(k) != NONE))))
      st.assume(ForAllT([k, k2], z3.Implies(z3.And(domp(k), domp(k2), k != k2), valf(k) != valf(k2))))
      inv = ufn(fresh_name('dckey'), U, U)
      st.assume(ForAllT([k], z3.Implies(domp(k), inv(valf(k)) == k)))
      isnew = lambda s: z3.And(domp(inv(s)), valf(inv(s)) == s)
      memnew = ufn(fresh_name('dcmem'), U, U, B)
      st.assume(ForAllT([k, e], z3.Implies(domp(k), memnew(valf(k), e) == argp_sub(argp, e, k, c2, self, vnode))))
      st.heap = st.heap.with_('mem', lambda s, x: z3.If(isnew(s), memnew(s, x), oldmem(s, x))) \
                       .with_('alloc', lambda o: z3.Or(isnew(o), st_alloc(oldalloc, o)))
    else:
      v = self.sv(vnode, c2)
      st.assume(ForAllT([k], z3.Implies(domp(k), valf(k) == to_u(v, c2))))
    st.heap = st.heap.with_('dom', lambda d, x: z3.If(d == r.t, domp(x), olddom(d, x))) \
                     .with_('val', lambda d, x: z3.If(d == r.t, valf(x), oldval(d, x)))
    return r

  # ---------------------------------------------------------------- forking helper

  def fork(self, st, cond):
    """Yield (state, True) with cond assumed and (state, False) with its negation; prune
    branches the solver shows infeasible."""
    cond = z3.simplify(cond) if z3.is_expr(cond) else z3.BoolVal(bool(cond))
    if z3.is_true(cond):
      yield st, True
      return
    if z3.is_false(cond):
      yield st, False
      return
    s1 = st.fork()
    s1.assume(cond)
    if self.feasible(s1):
      yield s1, True
    s2 = st.fork()
    s2.assume(z3.Not(cond))
    if self.feasible(s2):
      yield s2, False


def st_alloc(oldalloc, o):
  return oldalloc(o)


def substitute_pred(formula, x, t):
  return z3.substitute(formula, (x, t))


def argp_sub(argp, e, k, c2, ex, vnode):
  return argp(e)
