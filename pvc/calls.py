"""Call lowering: builtins, container methods, contracts (modular), inlining, opaque callbacks."""
import ast
import z3

from pvc.core import *  # noqa: F401,F403
from pvc import ops
from pvc.ops import to_u, from_u, truthy, as_setpred, note_alloc, Event
from pvc.spec_eval import SpecCtx, elem_type, parse_spec

EXC_NAMES = set(EXC_PARENTS) | {'BaseException'}


class CallMixin(object):

  # ---------------------------------------------------------------- entry

  def ev_Call(self, n, st):
    f = n.func
    # generator arguments are handled by the builtin that consumes them
    if isinstance(f, ast.Name) and f.id not in st.env and f.id in ('all', 'any', 'tuple', 'set', 'frozenset',
                                                                  'list', 'sorted', 'dict') \
        and len(n.args) >= 1 and isinstance(n.args[0], (ast.GeneratorExp, ast.ListComp)):
      yield from self.call_with_generator(f.id, n, st)
      return
    if isinstance(f, ast.Attribute):
      for st1, base in self.ev(f.value, st):
        if isinstance(base, Exc):
          yield st1, base
          continue
        yield from self._call_attr(base, f.attr, n, st1)
      return
    for st1, fv in self.ev(f, st):
      if isinstance(fv, Exc):
        yield st1, fv
        continue
      yield from self._call_value(fv, n, st1)

  def eval_args(self, n, st):
    """yields (state, args, kwargs, star, dstar) or (state, Exc, ...)."""
    pos = [a for a in n.args if not isinstance(a, ast.Starred)]
    star = [a.value for a in n.args if isinstance(a, ast.Starred)]
    if len(star) > 1 or (star and n.args and not isinstance(n.args[-1], ast.Starred)):
      raise Unsupported('star-args not in last position')
    kw = [k for k in n.keywords if k.arg is not None]
    dstar = [k.value for k in n.keywords if k.arg is None]
    if len(dstar) > 1:
      raise Unsupported('several ** arguments')
    nodes = pos + star + [k.value for k in kw] + dstar
    for st1, vals in self.ev_many(nodes, st):
      if isinstance(vals, Exc):
        yield st1, vals, None, None, None
        continue
      i = len(pos)
      a = vals[:i]
      sv_ = vals[i] if star else None
      i += len(star)
      kwv = {k.arg: vals[i + j] for j, k in enumerate(kw)}
      i += len(kw)
      dv = vals[i] if dstar else None
      if isinstance(sv_, VTuple):
        a = a + sv_.items
        sv_ = None
      yield st1, a, kwv, sv_, dv

  def _call_attr(self, base, meth, n, st):
    for st1, args, kw, star, dstar in self.eval_args(n, st):
      if isinstance(args, Exc):
        yield st1, args
        continue
      yield from self.call_method(base, meth, args, kw, st1, star, dstar, n)

  def _call_value(self, fv, n, st):
    for st1, args, kw, star, dstar in self.eval_args(n, st):
      if isinstance(args, Exc):
        yield st1, args
        continue
      yield from self.apply(fv, args, kw, st1, star, dstar, n)

  def apply(self, fv, args, kw, st, star=None, dstar=None, n=None):
    if isinstance(fv, VBuiltin):
      yield from self.call_builtin(fv.name, args, kw, st, star, dstar, n)
    elif isinstance(fv, VFunc):
      if star is not None or dstar is not None:
        raise Unsupported('star call of local function')
      yield from self.inline_call(fv, args, kw, st)
    elif isinstance(fv, VGlobal):
      yield from self.call_global(fv.path, args, kw, st, star, dstar)
    elif isinstance(fv, VBound):
      yield from self.call_method(fv.recv, fv.name, args, kw, st, star, dstar, n)
    elif isinstance(fv, VRef):
      yield from self.call_opaque(fv, args, kw, st, star, dstar)
    else:
      raise Unsupported('call of %r' % (fv,))

  # ---------------------------------------------------------------- global functions

  def call_global(self, path, args, kw, st, star=None, dstar=None):
    last = path.rsplit('.', 1)[-1]
    if self.contract is not None and path in self.contract.pure and self.contract.pure[path] != 'drop':
      allargs = list(args) + [kw[k] for k in sorted(kw)]
      yield st, self.pure_app(path, allargs, self.contract.pure[path], st)
      return
    if path == 'copy.copy' and len(args) == 1 and not kw and isinstance(args[0], VRef) and args[0].ty.kind in ('set', 'dict'):
      # shallow copy of a set / dict: a fresh container with the same contents
      if args[0].ty.kind == 'set':
        yield st, ops.new_set(st, as_setpred(args[0], st), args[0].ty)
      else:
        yield st, ops.copy_dict(st, args[0].t, args[0].ty)
      return
    if self.mode == 'event' and self.contract is not None and path in self.contract.callbacks:
      # declared observable in this contract (e.g. a constructor whose arguments matter)
      yield from self.call_opaque(None, args, kw, st, star, dstar, kind='call', label=path)
      return
    if self.mode == 'event' and path in self.world.contracts and self.world.contracts[path].mode == 'event' \
        and path not in self.contract.inline:
      # another event-mode function (or a recursive call): an observable action labelled by its name
      yield from self.call_opaque(None, args, kw, st, star, dstar, kind='call', label=path)
      return
    if path in self.world.contracts and (self.contract is None or path not in self.contract.inline):
      if star is not None or dstar is not None:
        raise Unsupported('star call of contracted function')
      yield from self.call_contract(self.world.contracts[path], args, kw, st)
      return
    if self.contract is not None and path in self.contract.inline:
      if star is not None or dstar is not None:
        raise Unsupported('star call of inlined function %s' % path)   # (the starred arguments would be lost)
      fn = self.load_function(path)
      yield from self.inline_call(fn, args, kw, st)
      return
    rt = self.pure_ret_type(path)
    if rt is not None:
      if rt == 'drop':
        yield st, VNone
      else:
        allargs = list(args) + [kw[k] for k in sorted(kw)]
        yield st, self.pure_app(path, allargs, rt, st)
      return
    if path.startswith('malt.utils.ag_logging.') or path.startswith('logging.'):
      if last in ('warning', 'warn', 'error'):
        st.trace.append(Event('log', last, []))      # user-visible diagnostics are observable
      yield st, VNone                                 # plain log lines are dropped by the extraction
      return
    if last in EXC_NAMES or path in self.world.pure.get('__exceptions__', ()):
      yield st, self.make_exception(last, args, st)
      return
    cls = self.world.classes.get(last)
    if cls is None or not (cls.module is None or path == '%s.%s' % (cls.module, last)):
      # several modules define a class of this name: the sidecar declares them under distinct names + pyname
      mod = path.rsplit('.', 1)[0]
      alt = self.world.class_for(mod, last) if hasattr(self.world, 'class_for') else None
      if alt is not None and alt in self.world.classes and self.world.classes[alt].module == mod:
        cls = self.world.classes[alt]
    if cls is not None and (cls.module is None or path == '%s.%s' % (cls.module, cls.pyname)):
      yield from self.construct(cls, args, kw, st)
      return
    if path == 'weakref.WeakSet':
      src = args[0] if args else None
      pred = as_setpred(src, st) if src is not None else (lambda e: z3.BoolVal(False))
      r = ops.new_set(st, pred, Ty('set', (elem_type(src) if src is not None else ANY,)), 'WeakSet')
      yield st, r
      return
    if self.mode == 'event':
      # event mode: a call the sidecar does not model is an observable action labelled by its path
      yield from self.call_opaque(None, args, kw, st, star, dstar, kind='call', label=path)
      return
    raise Unsupported('call to undeclared function %s' % path)

  def make_exception(self, cls, args, st):
    r = ops.alloc_obj(st, Ty('obj', (), cls), 'exc')
    r.exc_cls = cls
    return r

  def construct(self, cls, args, kw, st):
    obj = ops.alloc_obj(st, Ty('obj', (), cls.name), cls.name.lower())
    q = self.world.find_method(cls.name, '__init__')
    if q is None:
      yield st, obj
      return
    for st1, r in self.call_qualified(q, [obj] + list(args), kw, st, self_val=obj):
      yield st1, (r if isinstance(r, Exc) else obj)

  def call_qualified(self, q, args, kw, st, self_val=None):
    if self.contract is not None and q in self.contract.calls:
      q = self.contract.calls[q]       # the case of the callee's contract that applies at calls made here
    if q in self.world.contracts and (self.contract is None or q not in self.contract.inline
                                      ) and q != getattr(self, 'target_name', None) + '#':
      yield from self.call_contract(self.world.contracts[q], args, kw, st)
      return
    fn = self.load_function(q)
    yield from self.inline_call(fn, args, kw, st)

  def load_function(self, q):
    parts = q.split('.')
    for i in range(len(parts) - 1, 0, -1):
      modname = '.'.join(parts[:i])
      try:
        mi = self.world.module(modname)
      except SpecError:
        continue
      node = mi.find('.'.join(parts[i:]))
      if node is None:
        raise Unsupported('function %s not found in %s' % (q, modname))
      for d in getattr(node, 'decorator_list', []):
        txt = ast.unparse(d)
        if txt not in ('property', 'staticmethod', 'classmethod', 'abc.abstractmethod') and not txt.startswith('functools.wraps('):
          raise Unsupported('decorator @%s on inlined function %s is not modelled' % (txt, q))
      return VFunc(node, {}, mi, q)
    raise Unsupported('cannot locate %s' % q)

  def call_property(self, recv, name, st):
    q = self.world.find_method(recv.ty.name, name)
    if q is None:
      raise Unsupported('property %s' % name)
    yield from self.call_qualified(q, [recv], {}, st, self_val=recv)

  # ---------------------------------------------------------------- inlining

  def bind_params(self, fnode, args, kw, st, modinfo=None):
    a = fnode.args
    params = [p.arg for p in a.posonlyargs + a.args]
    env = {}
    args = list(args)
    if len(args) > len(params) and a.vararg is None:
      return Exc('TypeError')
    for p, v in zip(params, args):
      env[p] = v
    if a.vararg is not None:
      env[a.vararg.arg] = VTuple(args[len(params):])
    kw = dict(kw)
    for p in params[len(args):] + [k.arg for k in a.kwonlyargs]:
      if p in kw:
        env[p] = kw.pop(p)
    defaults = a.defaults
    for p, d in zip(params[len(params) - len(defaults):], defaults):
      if p not in env:
        env[p] = self.default_value(d, modinfo)
    for p, d in zip(a.kwonlyargs, a.kw_defaults):
      if p.arg not in env and d is not None:
        env[p.arg] = self.default_value(d, modinfo)
    if a.kwarg is not None:
      if kw:
        raise Unsupported('**kwargs parameter receiving keywords while inlining')
      env[a.kwarg.arg] = None
      kw = {}
    if kw:
      return Exc('TypeError')
    for p in params + [k.arg for k in a.kwonlyargs]:
      if p not in env:
        return Exc('TypeError')
    return env

  def default_value(self, d, modinfo):
    if isinstance(d, ast.Constant):
      from pvc.spec_eval import const_val
      return const_val(d.value)
    if isinstance(d, ast.Name):
      g = self.resolve_global(d.id, modinfo)
      if g is not None:
        return g
    if isinstance(d, ast.Attribute):
      st = ops.State()
      old = self.cur_mod
      self.cur_mod = modinfo
      try:
        outs = list(self.ev(d, st))
      finally:
        self.cur_mod = old
      if len(outs) == 1 and not isinstance(outs[0][1], Exc):
        return outs[0][1]
    raise Unsupported('default value expression')

  def inline_call(self, fn, args, kw, st):
    # a closure called from the frame that defined it sees that frame's CURRENT bindings
    hd = getattr(fn, 'home_depth', None)
    if hd == self.inline_depth:
      closure_env = st.env
    elif hd is not None and hd < len(self.frame_envs):
      closure_env = self.frame_envs[hd]       # suspended frame: its bindings at the time it made the call
    else:
      closure_env = fn.env
    self.frame_envs.append(st.env)
    self.inline_depth += 1
    if self.inline_depth > 12:
      raise Unsupported('inlining too deep (recursion?) at %s' % fn.qualname)
    try:
      if isinstance(fn.node, ast.Lambda):
        env = self.bind_params(fn.node, args, kw, st, fn.modinfo)
        if isinstance(env, Exc):
          yield st, env
          return
        full = dict(closure_env)
        full.update(env)
        saved_env, saved_mod = st.env, self.cur_mod
        st.env = full
        self.cur_mod = fn.modinfo
        for st1, v in list(self.ev(fn.node.body, st)):
          st1.env = saved_env
          self.cur_mod = saved_mod
          yield st1, v
          self.cur_mod = fn.modinfo
        self.cur_mod = saved_mod
        return
      if fn.self_val is not None and not (args and args[0] is fn.self_val):
        args = [fn.self_val] + list(args)
      env = self.bind_params(fn.node, args, kw, st, fn.modinfo)
      if isinstance(env, Exc):
        yield st, env
        return
      full = dict(closure_env)
      full.update(env)
      saved_env, saved_mod = st.env, self.cur_mod
      st.env = full
      self.cur_mod = fn.modinfo
      outs = list(self.exec_block(fn.node.body, st))
      self.cur_mod = saved_mod
      for kind, st1, v in outs:
        # closures see later writes of the enclosing frame only through cells; we restore the
        # caller environment but propagate writes to names the closure shares (nonlocal)
        newenv = dict(saved_env)
        for nm in self.nonlocal_names(fn.node):
          if nm in st1.env:
            newenv[nm] = st1.env[nm]
        st1.env = newenv
        if kind == 'normal':
          yield st1, VNone
        elif kind == 'return':
          yield st1, v
        elif kind == 'raise':
          yield st1, v
        else:
          raise Unsupported('break/continue escaping a function')
    finally:
      self.inline_depth -= 1
      self.frame_envs.pop()

  def nonlocal_names(self, fnode):
    out = set()
    for s in ast.walk(fnode):
      if isinstance(s, ast.Nonlocal):
        out.update(s.names)
    return out

  # ---------------------------------------------------------------- modular calls

  def call_contract(self, c, args, kw, st):
    """Caller side of a contract: prove requires, havoc the frame, assume ensures."""
    node = None if c.abstract else self.contract_node(c)
    if node is not None:
      env = self.bind_params(node, args, kw, st, self.world.module(c.module))
    else:
      names = c.ghost.get('params')
      if names is None:
        raise SpecError('abstract contract %s needs ghost params' % c.name)
      env = dict(zip(names, args))
      env.update(kw)
      from pvc.spec_eval import const_val
      for dn, dv in (c.ghost.get('defaults') or {}).items():
        env.setdefault(dn, const_val(dv))
    if isinstance(env, Exc):
      yield st, env
      return
    env = {k: v for k, v in env.items() if v is not None}
    modinfo = self.world.module(c.module) if not c.abstract else self.cur_mod
    pre = SpecCtx(env, st.heap, st.pc, None, modinfo)
    saved = self.contract
    self.spec_contract_stack.append(c)
    try:
      for i, r in enumerate(c.requires):
        self.oblige('call:%s/requires/%d' % (c.local_name if not c.abstract else c.name, i), st,
                    self.spec_bool(r, pre), detail=r)
      old_heap = st.heap
      # frame
      if c.modifies is not None:
        self.havoc_frame(st, c.modifies, pre, c)
      rty = parse_type(c.types.get('return', c.returns or 'Any'))
      result = ops.fresh_val(rty, 'ret_' + c.name.rsplit('.', 1)[-1], st)
      if isinstance(result, VRef):
        ops.assume_type(result, st)
        if rty.kind in ('set', 'dict', 'list', 'vtuple', 'obj'):
          st.assume(st.heap.alloc(result.t))      # whatever a call returns exists afterwards
      elif isinstance(result, VTuple):
        for it in result.items:
          if isinstance(it, VRef) and it.ty.kind in ('set', 'dict', 'list', 'vtuple', 'obj'):
            ops.assume_type(it, st)
            st.assume(st.heap.alloc(it.t))
      oldcx = SpecCtx(env, old_heap, st.pc, None, modinfo)
      env2 = dict(env)
      env2['result'] = result
      post = SpecCtx(env2, st.heap, st.pc, oldcx, modinfo)
      # exceptional exits allowed by the contract
      for exc_cls, cond in c.raises.items():
        s2 = st.fork()
        if cond is not True:
          s2.assume(self.spec_bool(cond, SpecCtx(env, old_heap, s2.pc, None, modinfo)))
        for e in c.exc_ensures.get(exc_cls, ()):  # facts known when the callee raises
          s2.assume(self.spec_bool(e, SpecCtx(env2, s2.heap, s2.pc, SpecCtx(env, old_heap, s2.pc, None, modinfo), modinfo)))
        if self.feasible(s2):
          yield s2, Exc(exc_cls, origin=c.name)
      for e in c.ensures:
        st.assume(self.spec_bool(e, post))
    finally:
      self.spec_contract_stack.pop()
    yield st, result

  def contract_node(self, c):
    if c.source:
      import textwrap
      return ast.parse(textwrap.dedent(c.source)).body[0]
    mi = self.world.module(c.module)
    node = mi.find(c.local_name)
    if node is None:
      raise SpecError('contract target %s not found in current source' % c.name)
    return node

  def havoc_frame(self, st, modifies, cx, c=None):
    """Havoc exactly the locations named by `modifies` (objects or obj.field)."""
    objs, fields, everything = [], [], False
    objkinds = {}
    fresh_only = False
    for m in modifies:
      if m == '*':
        everything = True
        continue
      if m == 'fresh':
        # besides what is listed, any object allocated since function entry may change (typical for a loop
        # that fills a structure the function itself created)
        fresh_only = True
        continue
      node = parse_spec(m)
      if isinstance(node, ast.Attribute):
        base = self.sv(node.value, cx)
        fields.append((to_u(base, cx), node.attr))
      else:
        if isinstance(node, ast.Call) and isinstance(node.func, ast.Name) and node.func.id == 'contents':
          node = node.args[0]
        v = self.sv(node, cx)
        objs.append(to_u(v, cx))
        objkinds[len(objs) - 1] = v.ty.kind if isinstance(v, VRef) else None
    old = st.heap
    if everything:
      names = [nm for nm in set(old.names()) | set(CONTAINER_COMPS) | {'alloc'}]
      st.heap = old.havoc(names)
      o = z3.Const(fresh_name('o'), U)
      st.assume(ForAllT([o], z3.Implies(old.alloc(o), st.heap.alloc(o))))
      self.preserve_private(st, old)
      ops.heap_wf(st, st.heap, getattr(self, 'ref_fields', ()), getattr(self, 'field_kinds', None), getattr(self, 'value_kinds', None))
      return
    names = list(CONTAINER_COMPS) + ['alloc'] + [('fld', f) for _, f in fields]
    if fresh_only:
      names += [nm for nm in old.names() if isinstance(nm, tuple) and nm not in names]
    new = old.havoc(names)
    st.heap = new
    o = z3.Const(fresh_name('o'), U)
    e = z3.Const(fresh_name('e'), U)
    i = z3.Const(fresh_name('i'), I)
    entry_heap = self.entry_cx.heap if fresh_only and getattr(self, 'entry_cx', None) is not None else None
    existed = (lambda x: entry_heap.alloc(x)) if entry_heap is not None else (lambda x: old.alloc(x))
    # a modified dict changes only dom/val, a set only mem, a list only len/item/lmem
    def unt(kinds):
      return z3.And([o != m for j, m in enumerate(objs) if objkinds.get(j) in kinds + (None, 'any', 'opt', 'union')]
                    + [existed(o)])
    untouched = unt(('set', 'dict', 'list', 'vtuple'))
    st.assume(ForAllT([o, e], z3.Implies(unt(('set',)), new.mem(o, e) == old.mem(o, e))))
    st.assume(ForAllT([o, e], z3.Implies(unt(('list', 'vtuple')), new.lmem(o, e) == old.lmem(o, e))))
    st.assume(ForAllT([o, e], z3.Implies(unt(('dict',)), new.dom(o, e) == old.dom(o, e))))
    st.assume(ForAllT([o, e], z3.Implies(unt(('dict',)), new.val(o, e) == old.val(o, e))))
    st.assume(ForAllT([o], z3.Implies(unt(('list', 'vtuple')), new.len(o) == old.len(o))))
    st.assume(ForAllT([o, i], z3.Implies(unt(('list', 'vtuple')), new.item(o, i) == old.item(o, i))))
    st.assume(ForAllT([o], z3.Implies(old.alloc(o), new.alloc(o))))
    byfield = {}
    for b, f in fields:
      byfield.setdefault(f, []).append(b)
    if fresh_only:
      for nm in names:
        if isinstance(nm, tuple):
          byfield.setdefault(nm[1], [])
    for f, bases in byfield.items():
      nf, of = new.get(('fld', f)), old.get(('fld', f))
      st.assume(ForAllT([o], z3.Implies(z3.And([o != b for b in bases] + [existed(o)]), nf(o) == of(o))))
    ops.heap_wf(st, st.heap, getattr(self, 'ref_fields', ()), getattr(self, 'field_kinds', None), getattr(self, 'value_kinds', None))

  def preserve_private(self, st, old):
    """Objects allocated by this function that never escape cannot be touched by a callee."""
    c = self.contract
    if c is None or not c.private or self.inline_depth > 0:
      return
    new = st.heap
    e = z3.Const(fresh_name('e'), U)
    i = z3.Const(fresh_name('i'), I)
    for nm in c.private:
      v = st.env.get(nm)
      if not isinstance(v, VRef):
        continue
      self.oblige('private/%s/is-local' % nm, st, z3.Not(self.entry_cx.heap.alloc(v.t)),
                  detail='%s must be allocated by this function' % nm)
      st.assume(ForAllT([e], new.mem(v.t, e) == old.mem(v.t, e)))
      st.assume(ForAllT([e], new.lmem(v.t, e) == old.lmem(v.t, e)))
      st.assume(new.len(v.t) == old.len(v.t))
      st.assume(ForAllT([i], new.item(v.t, i) == old.item(v.t, i)))
      st.assume(ForAllT([e], new.dom(v.t, e) == old.dom(v.t, e)))
      st.assume(ForAllT([e], new.val(v.t, e) == old.val(v.t, e)))
    self.private_unreferenced(st)

  def private_unreferenced(self, st):
    """No heap location refers to a private (non-escaping) local object."""
    c = self.contract
    if c is None or not c.private or self.inline_depth > 0:
      return
    h = st.heap
    o = z3.Const(fresh_name('po'), U)
    e = z3.Const(fresh_name('pe'), U)
    i = z3.Const(fresh_name('pi'), I)
    for nm in c.private:
      v = st.env.get(nm)
      if not isinstance(v, VRef):
        continue
      p_ = v.t
      for f in getattr(self, 'ref_fields', ()):
        st.assume(ForAllT([o], h.fld(f, U)(o) != p_))
      st.assume(ForAllT([o, e], z3.Implies(h.mem(o, e), e != p_)))
      st.assume(ForAllT([o, e], z3.Implies(h.lmem(o, e), e != p_)))
      st.assume(ForAllT([o, e], z3.Implies(h.dom(o, e), z3.And(e != p_, h.val(o, e) != p_))))

  def _is_container_field(self, node, cx):
    """`self.in_` names the dict object stored in the field (a container), not the field slot."""
    try:
      v = self.sv(node, cx)
    except SpecError:
      return False
    return isinstance(v, VRef) and v.ty.kind in ('set', 'dict', 'list')

  # ---------------------------------------------------------------- opaque callbacks (events)

  def call_opaque(self, fv, args, kw, st, star=None, dstar=None, kind='call', label=None):
    fn_t = to_u(fv, st) if fv is not None else None
    if self.contract is not None and kind == 'call':
      for i, r in enumerate(self.contract.opaque_requires):
        self.oblige('at-callback/requires/%d' % i, st, self.spec_bool(r, self.spec_ctx(st)), detail=r)
    ev = Event(kind, label if label else fn_t, [to_u(a, st) for a in args],
               {k: to_u(v, st) for k, v in kw.items()},
               to_u(star, st) if star is not None else None,
               to_u(dstar, st) if dstar is not None else None, heap=st.heap)
    idx = st.evidx
    st.evidx += 1
    tag = '%s@%d' % (st.seg or 'entry', idx)
    st.trace.append(ev)
    # the callee may do anything to the heap except what the contract says it preserves
    self.opaque_havoc(st)
    # exceptional return.  Event mode: outside any try / with body an exception of the callee simply
    # propagates (Python semantics, identical for implementation and specification), so only calls
    # that some handler or __exit__ can observe are forked.
    if self.opaque_may_raise and (self.mode != 'event' or self.try_depth > 0):
      s2 = st.fork()
      s2.assume(z3.Bool('raises!' + tag))
      e = Exc('OpaqueException', payload=VRef(z3.Const('exc!' + tag, U), ANY), origin=tag)
      yield s2, e
      st.assume(z3.Not(z3.Bool('raises!' + tag)))
    yield st, VRef(z3.Const('ret!' + tag, U), ANY)

  def opaque_havoc(self, st):
    c = self.contract
    if c is None or self.mode == 'event' and not c.opaque_preserves and not getattr(c, 'track_heap', False):
      return
    old = st.heap
    pre_env = dict(st.env)
    names = [nm for nm in set(old.names()) | set(CONTAINER_COMPS)]
    st.heap = old.havoc(names)
    o = z3.Const(fresh_name('o'), U)
    st.assume(ForAllT([o], z3.Implies(old.alloc(o), st.heap.alloc(o))))
    ops.heap_wf(st, st.heap, getattr(self, 'ref_fields', ()), getattr(self, 'field_kinds', None), getattr(self, 'value_kinds', None))
    oldcx = SpecCtx(pre_env, old, st.pc, None, self.cur_mod)
    cx = SpecCtx(pre_env, st.heap, st.pc, oldcx, self.cur_mod)
    for p in c.opaque_preserves:
      st.assume(self.spec_bool(p, cx))

  # ---------------------------------------------------------------- methods

  def call_method(self, base, meth, args, kw, st, star=None, dstar=None, n=None):
    if isinstance(base, VGlobal):
      yield from self.call_global(base.path + '.' + meth, args, kw, st, star, dstar)
      return
    if isinstance(base, VSuper):
      ci = self.world.classes.get(self.world.class_for(self.cur_mod.name, base.cls)) or self.world.classes.get(base.cls)
      q = self.world.find_method(ci.bases[0], meth) if ci is not None and ci.bases else None
      if q is None and self.mode == 'event':
        # the parent implementation is outside the contract: an observable action labelled by its name
        yield from self.call_opaque(None, [base.self_val] + list(args), kw, st, star, dstar, kind='call',
                                    label='super(%s).%s' % (base.cls, meth))
        return
      if ci is None or not ci.bases:
        raise Unsupported('super() of undeclared class %s' % base.cls)
      if q is None:
        raise Unsupported('no base method %s above %s' % (meth, base.cls))
      yield from self.call_qualified(q, [base.self_val] + list(args), kw, st, self_val=base.self_val)
      return
    if isinstance(base, VBuiltin):
      if self.mode == 'event':
        yield from self.call_opaque(VBound(base, meth), args, kw, st, star, dstar)
        return
      raise Unsupported('method of builtin %s' % base.name)
    if isinstance(base, VStr):
      yield st, self.str_method(base, meth, args, st)
      return
    if isinstance(base, VTuple):
      raise Unsupported('tuple method %s' % meth)
    if isinstance(base, VRef):
      k = base.ty.kind
      if k == 'set':
        yield from self.set_method(base, meth, args, st)
        return
      if k == 'dict':
        yield from self.dict_method(base, meth, args, kw, st)
        return
      if k in ('list', 'vtuple'):
        yield from self.list_method(base, meth, args, st)
        return
      if k == 'obj':
        if self.mode == 'event' and self.contract is not None and meth in self.contract.callbacks:
          # an overridable hook: whatever the subclass does is an observable action
          yield from self.call_opaque(VBound(base, meth), args, kw, st, star, dstar)
          return
        if self.contract is not None and ('method.' + meth) in self.contract.pure:
          yield st, self.pure_app('method.' + meth, [base] + list(args), self.contract.pure['method.' + meth], st)
          return
        q = self.world.find_method(base.ty.name, meth)
        if q is not None:
          if star is not None or dstar is not None:
            raise Unsupported('star call of method %s.%s' % (base.ty.name, meth))   # (the starred arguments would be lost)
          yield from self.call_qualified(q, [base] + list(args), kw, st, self_val=base)
          return
        rt = self.pure_ret_type('method.' + meth)
        if rt is not None:
          yield st, self.pure_app('method.' + meth, [base] + list(args), rt, st)
          return
        # a field holding a callable
        fty = self.world.field_type(base.ty.name, meth)
        if fty is not None and fty.kind in ('callable', 'any'):
          fv = self.read_attr(base, meth, st)
          yield from self.call_opaque(fv, args, kw, st, star, dstar)
          return
        if self.mode == 'event':
          yield from self.call_opaque(VBound(base, meth), args, kw, st, star, dstar)
          return
        raise Unsupported('method %s.%s has no contract, source or pure declaration' % (base.ty.name, meth))
      if k in ('any', 'callable', 'opt'):
        rt = self.pure_ret_type('method.' + meth)
        if rt is not None:
          yield st, self.pure_app('method.' + meth, [base] + list(args), rt, st)
          return
        if self.mode == 'event':
          yield from self.call_opaque(VBound(base, meth), args, kw, st, star, dstar)
          return
    if isinstance(base, VBound) and self.mode == 'event':
      # a method of an attribute of an opaque object (self.ctx.namer.new_symbol): an observable action
      yield from self.call_opaque(VBound(base, meth), args, kw, st, star, dstar)
      return
    raise Unsupported('method %s on %r' % (meth, base))

  def str_method(self, base, meth, args, st):
    if meth == 'startswith' and len(args) == 1 and isinstance(args[0], VStr):
      return VBool(z3.PrefixOf(args[0].t, base.t))
    if meth == 'endswith' and len(args) == 1 and isinstance(args[0], VStr):
      return VBool(z3.SuffixOf(args[0].t, base.t))
    if meth in ('startswith', 'endswith') and len(args) == 1 and self.mode == 'event':
      # the prefix is an opaque value: an uninterpreted predicate of (string, prefix), the same in both programs
      return self.pure_app('str.' + meth, [base] + list(args), 'bool', st)
    rt = {'split': 'Seq[str]', 'isdigit': 'bool', 'join': 'str', 'format': 'str', 'strip': 'str',
          'lstrip': 'str', 'rstrip': 'str', 'lower': 'str', 'splitlines': 'Seq[str]'}.get(meth)
    if rt is None:
      raise Unsupported('str method %s' % meth)
    v = self.pure_app('str.' + meth, [base] + list(args), rt, st)
    if isinstance(v, VRef):
      ops.assume_type(v, st)
      if meth == 'split':
        st.assume(st.heap.len(v.t) >= 1)
    return v

  def set_method(self, s, meth, args, st):
    h = st.heap
    if meth == 'add':
      u = to_u(args[0], st)
      ops.set_update(st, s.t, lambda old: (lambda e: z3.Or(e == u, old(e))))
      yield st, VNone
    elif meth in ('update', '__ior__'):
      preds = [as_setpred(a, st) for a in args]
      ops.set_update(st, s.t, lambda old: (lambda e: z3.Or([old(e)] + [p(e) for p in preds])))
      yield st, VNone
    elif meth in ('difference_update',):
      preds = [as_setpred(a, st) for a in args]
      ops.set_update(st, s.t, lambda old: (lambda e: z3.And([old(e)] + [z3.Not(p(e)) for p in preds])))
      yield st, VNone
    elif meth == 'remove':
      u = to_u(args[0], st)
      for st2, ok in self.fork(st, h.mem(s.t, u)):
        if ok:
          ops.set_update(st2, s.t, lambda old: (lambda e: z3.And(e != u, old(e))))
          yield st2, VNone
        else:
          yield st2, Exc('KeyError')
    elif meth == 'discard':
      u = to_u(args[0], st)
      ops.set_update(st, s.t, lambda old: (lambda e: z3.And(e != u, old(e))))
      yield st, VNone
    elif meth == 'copy':
      yield st, ops.new_set(st, as_setpred(s, st), s.ty)
    elif meth in ('union', 'intersection', 'difference'):
      op = {'union': ast.BitOr(), 'intersection': ast.BitAnd(), 'difference': ast.Sub()}[meth]
      e = self.set_binop(op, s, args[0], st)
      yield st, ops.new_set(st, e.pred, s.ty)
    elif meth == 'clear':
      ops.set_update(st, s.t, lambda old: (lambda e: z3.BoolVal(False)))
      yield st, VNone
    else:
      raise Unsupported('set method %s' % meth)

  def dict_method(self, d, meth, args, kw, st):
    h = st.heap
    kt = d.ty.args[0] if d.ty.args else ANY
    vt = d.ty.args[1] if len(d.ty.args) > 1 else ANY
    if meth == 'get':
      ku = to_u(args[0], st)
      default = args[1] if len(args) > 1 else VNone
      for st2, ok in self.fork(st, h.dom(d.t, ku)):
        if ok:
          v = from_u(st2.heap.val(d.t, ku), vt, st2)
          ops.assume_type(v, st2)
          yield st2, note_alloc(v, st2)
        else:
          yield st2, default
    elif meth == 'keys':
      yield st, VSetExpr(lambda e: h.dom(d.t, e), Ty('set', (kt,)))
    elif meth in ('items', 'values'):
      yield st, VBound(d, meth + '()')
    elif meth == 'pop':
      ku = to_u(args[0], st)
      for st2, ok in self.fork(st, h.dom(d.t, ku)):
        if ok:
          v = from_u(st2.heap.val(d.t, ku), vt, st2)
          ops.dict_del(st2, d.t, ku)
          yield st2, v
        elif len(args) > 1:
          yield st2, args[1]
        else:
          yield st2, Exc('KeyError')
    elif meth == 'setdefault':
      raise Unsupported('dict.setdefault')
    elif meth == 'update':
      if self.mode == 'event':
        yield from self.call_opaque(VBound(d, 'update'), args, kw, st)
        return
      if len(args) == 1 and not kw and isinstance(args[0], VRef) and args[0].ty.kind == 'dict':
        # d.update(other dict): keys of other are added / overwritten with other's values
        o = args[0].t
        olddom, oldval = h.dom, h.val
        st.heap = st.heap.with_('dom', lambda x, k: z3.If(x == d.t, z3.Or(olddom(d.t, k), olddom(o, k)), olddom(x, k))) \
                         .with_('val', lambda x, k: z3.If(z3.And(x == d.t, olddom(o, k)), oldval(o, k), oldval(x, k)))
        yield st, VNone
        return
      raise Unsupported('dict.update')
    else:
      raise Unsupported('dict method %s' % meth)

  def list_method(self, l, meth, args, st):
    h = st.heap
    if meth == 'append':
      ops.list_append(st, l.t, to_u(args[0], st))
      yield st, VNone
    elif meth == 'pop':
      nonempty = h.len(l.t) > 0
      front = bool(args) and isinstance(args[0], VInt) and z3.is_int_value(args[0].t) and args[0].t.as_long() == 0
      if args and not front:
        raise Unsupported('list.pop(i)')
      for st2, ok in self.fork(st, nonempty):
        if ok:
          u = ops.list_pop_front(st2, l.t) if front else ops.list_pop_back(st2, l.t)
          v = from_u(u, l.ty.elem, st2)
          ops.assume_type(v, st2)
          yield st2, note_alloc(v, st2)
        else:
          yield st2, Exc('IndexError')
    elif meth == 'extend':
      la, ia = self.seq_view(l, st)
      lb, ib = self.seq_view(args[0], st)
      oldlen, olditem = h.get('len'), h.get('item')
      oldl = h.get('lmem')
      pb = as_setpred(args[0], st)
      st.heap = h.with_('len', upd1(oldlen, l.t, la + lb)).with_(
          'item', lambda x, i: z3.If(z3.And(x == l.t, i >= la), ib(i - la), olditem(x, i))).with_(
          'lmem', lambda x, e: z3.If(x == l.t, z3.Or(oldl(x, e), pb(e)), oldl(x, e)))
      yield st, VNone
    elif meth == 'insert' and isinstance(args[0], VInt):
      oldlen, olditem = h.get('len'), h.get('item')
      n0 = oldlen(l.t)
      k = args[0].t
      k = z3.If(k < 0, z3.If(k + n0 < 0, 0, k + n0), z3.If(k > n0, n0, k))
      u = to_u(args[1], st)
      oldl = h.get('lmem')
      h = h.with_('lmem', lambda x, e: z3.If(x == l.t, z3.Or(e == u, oldl(x, e)), oldl(x, e)))
      st.heap = h.with_('len', upd1(oldlen, l.t, n0 + 1)).with_(
          'item', lambda x, i: z3.If(x == l.t, z3.If(i < k, olditem(x, i), z3.If(i == k, u, olditem(x, i - 1))),
                                     olditem(x, i)))
      yield st, VNone
    elif meth == 'remove':
      # removes the FIRST occurrence (ValueError when absent)
      u = to_u(args[0], st)
      oldlen, olditem = h.get('len'), h.get('item')
      n0 = oldlen(l.t)
      k = fresh('rmidx', I)
      j = z3.Const(fresh_name('rj'), I)
      for st2, ok in self.fork(st, h.lmem(l.t, u)):
        if ok:
          st2.assume(z3.And(k >= 0, k < n0, olditem(l.t, k) == u))
          st2.assume(ForAllT([j], z3.Implies(z3.And(j >= 0, j < k), olditem(l.t, j) != u)))
          h2 = st2.heap
          oldl = h2.get('lmem')
          P = ufn(fresh_name('lmemrm'), U, B)
          e = z3.Const(fresh_name('re'), U)
          st2.assume(ForAllT([e], z3.Implies(P(e), oldl(l.t, e))))
          st2.assume(ForAllT([e], z3.Implies(z3.And(oldl(l.t, e), e != u), P(e))))
          st2.heap = h2.with_('len', upd1(oldlen, l.t, n0 - 1)).with_(
              'item', lambda x, i: z3.If(z3.And(x == l.t, i >= k), olditem(x, i + 1), olditem(x, i))).with_(
              'lmem', upd2(oldl, l.t, lambda x: P(x)))
          yield st2, VNone
        else:
          yield st2, Exc('ValueError')
    elif meth == 'index' or meth == 'count':
      raise Unsupported('list.%s' % meth)
    else:
      raise Unsupported('list method %s' % meth)
