"""State and value-level operations (boxing, truthiness, equality, container primitives)."""
import z3

from pvc.core import *  # noqa: F401,F403
from pvc import core


class Event(object):
  """One observable action of an opaque callback (event mode, DESIGN.md 3.5)."""

  def __init__(self, kind, fn, args, kwargs=None, star=None, dstar=None, heap=None):
    self.heap = heap      # heap at the time of the event (contents of container arguments are compared)
    self.kind = kind      # 'call' | 'iter' | 'next' | 'log'
    self.fn = fn          # z3 U term or string label
    self.args = list(args)
    self.kwargs = dict(kwargs or {})
    self.star = star
    self.dstar = dstar

  def terms(self):
    out = []
    if z3.is_expr(self.fn):
      out.append(self.fn)
    out.extend(self.args)
    for k in sorted(self.kwargs):
      out.append(self.kwargs[k])
    if self.star is not None:
      out.append(self.star)
    if self.dstar is not None:
      out.append(self.dstar)
    return out

  def shape(self):
    return (self.kind, self.fn if isinstance(self.fn, str) else '<fn>', len(self.args),
            tuple(sorted(self.kwargs)), self.star is not None, self.dstar is not None)

  def __repr__(self):
    return 'Event(%s %s %s %s)' % (self.kind, self.fn, self.args, self.kwargs)


class State(object):
  def __init__(self, env=None, heap=None, pc=None, trace=None, seg=None):
    self.env = dict(env or {})
    self.heap = heap if heap is not None else Heap()
    self.pc = list(pc or [])
    self.trace = list(trace or [])
    self.seg = seg            # segment start label (event mode)
    self.evidx = 0            # event counter within segment
    self.ghost = {}

  def fork(self):
    s = State(self.env, self.heap, self.pc, self.trace, self.seg)
    s.evidx = self.evidx
    s.ghost = dict(self.ghost)
    if getattr(self, 'event_mode', False):
      s.event_mode = True
      s.allocidx = getattr(self, 'allocidx', 0)
      s.withidx = getattr(self, 'withidx', 0)
    return s

  def assume(self, f):
    if z3.is_true(f):
      return
    self.pc.append(f)


# ------------------------------------------------------------- boxing

def to_u(v, st):
  """z3 term of sort U for any value (ground boxing axioms go to st.pc)."""
  if isinstance(v, VRef):
    return v.t
  if v is VNone:
    return NONE
  if isinstance(v, VBool):
    t = box_bool(v.t)
    st.assume(unbox_bool(t) == v.t)
    st.assume(typeof(t) == cls_const('bool'))
    return t
  if isinstance(v, VInt):
    t = box_int(v.t)
    st.assume(unbox_int(t) == v.t)
    st.assume(typeof(t) == cls_const('int'))
    return t
  if isinstance(v, VStr):
    t = box_str(v.t)
    st.assume(unbox_str(t) == v.t)
    st.assume(typeof(t) == cls_const('str'))
    return t
  if isinstance(v, VTuple):
    n = len(v.items)
    us = [to_u(x, st) for x in v.items]
    t = tup_ctor(n)(*us)
    for i, u in enumerate(us):
      st.assume(tup_proj(n, i)(t) == u)
    st.assume(typeof(t) == cls_const('tuple'))
    st.assume(t != NONE)
    return t
  if isinstance(v, VGlobal):
    return global_const(v.path)
  if isinstance(v, VBuiltin):
    return global_const('builtins.' + v.name)
  if isinstance(v, VFunc):
    if not hasattr(v, '_u'):
      v._u = fresh('closure', U)
    return v._u
  if isinstance(v, VBound):
    return ufn('bound_' + v.name, U, U)(to_u(v.recv, st))
  raise Unsupported('cannot box %r' % (v,))


def global_const(path):
  return z3.Const('g!' + path, U)


def from_u(t, ty, st):
  """Typed view of a U term."""
  k = ty.kind
  if k == 'bool':
    st.assume(box_bool(unbox_bool(t)) == t)
    return VBool(unbox_bool(t))
  if k == 'int':
    st.assume(box_int(unbox_int(t)) == t)
    return VInt(unbox_int(t))
  if k == 'str':
    st.assume(box_str(unbox_str(t)) == t)
    return VStr(unbox_str(t))
  if k == 'none':
    return VNone
  if k == 'tuple':
    n = len(ty.args)
    projs = [tup_proj(n, i)(t) for i in range(n)]
    st.assume(tup_ctor(n)(*projs) == t)
    return VTuple([from_u(p, a, st) for p, a in zip(projs, ty.args)])
  return VRef(t, ty)


def fresh_val(ty, hint, st):
  k = ty.kind
  if k == 'bool':
    return VBool(fresh(hint, B))
  if k == 'int':
    return VInt(fresh(hint, I))
  if k == 'str':
    return VStr(fresh(hint, S))
  if k == 'none':
    return VNone
  if k == 'tuple':
    return VTuple([fresh_val(a, '%s_%d' % (hint, i), st) for i, a in enumerate(ty.args)])
  t = fresh(hint, U)
  v = VRef(t, ty)
  assume_type(v, st)
  return v


def assume_type(v, st, world=None):
  """Well-typedness facts of a declared type (non-None, container well-formedness)."""
  if not isinstance(v, VRef):
    return
  k = v.ty.kind
  if k in ('set', 'dict', 'list', 'vtuple', 'obj', 'callable'):
    st.assume(v.t != NONE)
  if k in ('list', 'vtuple'):
    st.assume(st.heap.len(v.t) >= 0)
  if k in KIND_CODE or k in ('obj', 'callable'):
    st.assume(kindof(v.t) == KIND_CODE.get(k, 0))
  if k == 'obj':
    st.assume(subcls(typeof(v.t), cls_const(v.ty.name)))
  if k in ('list', 'vtuple') and v.ty.args and v.ty.args[0].kind in ('str', 'int'):
    # declared scalar element type: every position holds a boxed scalar
    ix = z3.Const(fresh_name('ti'), I)
    it = st.heap.item(v.t, ix)
    rt = box_str(unbox_str(it)) if v.ty.args[0].kind == 'str' else box_int(unbox_int(it))
    st.assume(z3.ForAll([ix], z3.Implies(z3.And(ix >= 0, ix < st.heap.len(v.t)), rt == it)))
  if k == 'dict' and v.ty.args and v.ty.args[0].kind == 'obj':
    # declared key type: every key is an instance of it
    e = z3.Const(fresh_name('tk'), U)
    st.assume(z3.ForAll([e], z3.Implies(st.heap.dom(v.t, e), z3.And(subcls(typeof(e), cls_const(v.ty.args[0].name)), e != NONE))))
  if k == 'opt' and v.ty.args and v.ty.args[0].kind == 'obj':
    st.assume(z3.Implies(v.t != NONE, z3.And(subcls(typeof(v.t), cls_const(v.ty.args[0].name)), kindof(v.t) == 0)))
  if k in ('set', 'list', 'vtuple') and v.ty.args and v.ty.args[0].kind == 'obj':
    # declared element type: every element is an instance of it
    e = z3.Const(fresh_name('te'), U)
    member = st.heap.mem(v.t, e) if k == 'set' else st.heap.lmem(v.t, e)
    st.assume(z3.ForAll([e], z3.Implies(member, z3.And(subcls(typeof(e), cls_const(v.ty.args[0].name)), e != NONE))))
    if k != 'set':
      # the same fact by position (membership and positions are tied only through the list primitives)
      ix = z3.Const(fresh_name('ti'), I)
      it = st.heap.item(v.t, ix)
      st.assume(z3.ForAll([ix], z3.Implies(z3.And(ix >= 0, ix < st.heap.len(v.t)),
                                            z3.And(subcls(typeof(it), cls_const(v.ty.args[0].name)), it != NONE))))


# ------------------------------------------------------------- truthiness / equality

def truthy(v, st):
  """z3 Bool: Python truth value of v in the current heap."""
  if isinstance(v, VBool):
    return v.t
  if isinstance(v, VInt):
    return v.t != 0
  if isinstance(v, VStr):
    return z3.Length(v.t) > 0
  if v is VNone:
    return z3.BoolVal(False)
  if isinstance(v, VTuple):
    return z3.BoolVal(len(v.items) > 0)
  if isinstance(v, VSetExpr):
    x = fresh('w', U)
    return ExistsT([x], v.pred(x))
  if isinstance(v, (VFunc, VGlobal, VBuiltin, VBound)):
    return z3.BoolVal(True)
  if isinstance(v, VRef):
    k = v.ty.kind
    hv = heap_of(v, st)
    if k == 'set':
      x = z3.Const(fresh_name('e'), U)
      return ExistsT([x], hv.mem(v.t, x))
    if k in ('list', 'vtuple'):
      return hv.len(v.t) > 0
    if k == 'dict':
      x = z3.Const(fresh_name('k'), U)
      return ExistsT([x], hv.dom(v.t, x))
    if k in ('obj', 'callable'):
      return z3.BoolVal(True)
    if k == 'opt':
      inner = VRef(v.t, v.ty.args[0])
      return z3.And(v.t != NONE, truthy(inner, st))
    if k == 'union':
      return z3.And(v.t != NONE, truthy_u(v.t))
    return truthy_u(v.t)
  raise Unsupported('truthiness of %r' % (v,))


def set_nonempty(s, st):
  x = z3.Const(fresh_name('e'), U)
  return ExistsT([x], st.heap.mem(s, x))


def as_setpred(v, st):
  """Membership predicate of a set-like value (set ref, spec set, dict keys, list)."""
  if isinstance(v, VSetExpr):
    return v.pred
  if isinstance(v, VTuple):
    us = [to_u(x, st) for x in v.items]
    return lambda e: z3.Or([e == u for u in us]) if us else z3.BoolVal(False)
  if isinstance(v, VRef):
    if v.ty.kind == 'opt' and v.ty.args and v.ty.args[0].kind in ('set', 'dict', 'list', 'vtuple'):
      inner = VRef(v.t, v.ty.args[0])
      if hasattr(v, 'heap'):
        inner = VOldRef(v.t, v.ty.args[0], v.heap)
      return as_setpred(inner, st)
    k = v.ty.kind
    heap = heap_of(v, st)
    if k in ('set', 'any', 'opt', 'union'):
      return lambda e: heap.mem(v.t, e)
    if k == 'dict':
      return lambda e: heap.dom(v.t, e)
    if k in ('list', 'vtuple'):
      # list membership is the heap component lmem (kept consistent with len/item by the list
      # primitives below), so `x in l` needs no index quantifier
      return lambda e: heap.lmem(v.t, e)
  raise Unsupported('not set-like: %r' % (v,))


def seteq_formula(a, b, st):
  pa, pb = as_setpred(a, st), as_setpred(b, st)
  x = z3.Const(fresh_name('x'), U)
  return ForAllT([x], pa(x) == pb(x))


def _opt_scalar(ty):
  return ty.kind == 'opt' and ty.args and ty.args[0].kind in ('str', 'int', 'bool')


def values_equal(a, b, st, world=None):
  """z3 Bool for Python `a == b` on modelled values."""
  if a is VNone or b is VNone:
    if a is VNone and b is VNone:
      return z3.BoolVal(True)
    o = b if a is VNone else a
    if isinstance(o, VRef):
      return o.t == NONE
    return z3.BoolVal(False)
  if isinstance(a, VBool) and isinstance(b, VBool):
    return a.t == b.t
  if isinstance(a, VInt) and isinstance(b, VInt):
    return a.t == b.t
  if isinstance(a, VInt) and isinstance(b, VBool):
    return a.t == z3.If(b.t, 1, 0)
  if isinstance(a, VBool) and isinstance(b, VInt):
    return b.t == z3.If(a.t, 1, 0)
  if isinstance(a, VStr) and isinstance(b, VStr):
    return a.t == b.t
  if isinstance(a, VTuple) and isinstance(b, VTuple):
    if len(a.items) != len(b.items):
      return z3.BoolVal(False)
    return z3.And([values_equal(x, y, st, world) for x, y in zip(a.items, b.items)] or [z3.BoolVal(True)])
  if isinstance(a, VSetExpr) or isinstance(b, VSetExpr):
    return seteq_formula(a, b, st)
  if isinstance(a, VRef) and isinstance(b, VRef):
    ka, kb = a.ty.kind, b.ty.kind
    if ka == 'set' and kb == 'set':
      return seteq_formula(a, b, st)
    if ka == 'obj' or kb == 'obj':
      cls = a.ty.name if ka == 'obj' else b.ty.name
      ci = world.classes.get(cls) if world else None
      if ci is None or ci.eq in ('identity', 'value'):
        # 'value': objects are identified with their abstract value (stated assumption)
        return a.t == b.t
      raise Unsupported('== on class %s with custom __eq__ must go through its contract' % cls)
    if ka in ('list', 'vtuple') and kb in ('list', 'vtuple'):
      i = z3.Const(fresh_name('i'), I)
      ha, hb = heap_of(a, st), heap_of(b, st)
      return z3.And(ha.len(a.t) == hb.len(b.t),
                    ForAllT([i], z3.Implies(z3.And(i >= 0, i < ha.len(a.t)),
                                              ha.item(a.t, i) == hb.item(b.t, i))))
    if _opt_scalar(a.ty) and _opt_scalar(b.ty):
      # Opt[str] / Opt[int] / Opt[bool]: scalars are embedded injectively in U, None is a constant
      return a.t == b.t
    # unknown types: reflexive uninterpreted equality
    return z3.Or(a.t == b.t, py_eq(a.t, b.t))
  if isinstance(a, (VGlobal, VBuiltin)) or isinstance(b, (VGlobal, VBuiltin)):
    return to_u(a, st) == to_u(b, st)
  if isinstance(a, VBound) or isinstance(b, VBound):
    # an attribute of an opaque object: an unknown value (scalars are embedded injectively in U)
    ua, ub = to_u(a, st), to_u(b, st)
    return z3.Or(ua == ub, py_eq(ua, ub))
  if isinstance(a, VRef) or isinstance(b, VRef):
    ref, other = (a, b) if isinstance(a, VRef) else (b, a)
    if ref.ty.kind in ('set', 'dict', 'list', 'obj', 'callable'):
      return z3.BoolVal(False)
    ou = to_u(other, st)
    return ref.t == ou
  return z3.BoolVal(False)


def identical(a, b, st):
  """z3 Bool for `a is b`."""
  if a is VNone and b is VNone:
    return z3.BoolVal(True)
  if isinstance(a, VBool) and isinstance(b, VBool):
    return a.t == b.t
  if isinstance(a, (VInt, VStr, VTuple)) or isinstance(b, (VInt, VStr, VTuple)):
    if type(a) is not type(b):
      ua, ub = to_u(a, st), to_u(b, st)
      return ua == ub
    raise Unsupported('`is` on int/str/tuple values')
  return to_u(a, st) == to_u(b, st)


# ------------------------------------------------------------- allocation / containers

_KIND_CLS = {'set': 'set', 'list': 'list', 'dict': 'dict', 'vtuple': 'tuple'}


def alloc_obj(st, ty, hint='o', cls_name=None):
  """Fresh heap object distinct from everything allocated so far."""
  if getattr(st, 'event_mode', False):
    # event mode: allocation sites are named by (segment, index) so that both programs agree on them
    st.allocidx = getattr(st, 'allocidx', 0) + 1
    t = z3.Const('alloc!%s@%d' % (st.seg, st.allocidx), U)
  else:
    t = fresh(hint, U)
  h = st.heap
  st.assume(z3.Not(h.alloc(t)))
  st.assume(t != NONE)
  st.assume(kindof(t) == KIND_CODE.get(ty.kind, 0))
  cn = cls_name or (ty.name if ty.kind == 'obj' else _KIND_CLS.get(ty.kind))
  if cn:
    st.assume(typeof(t) == cls_const(cn))
  old = h.get('alloc')
  if not getattr(st, 'event_mode', False):
    mark_fresh(t)

  def alloc_now(o):
    if o.eq(t):
      return z3.BoolVal(True)
    if known_distinct(o, t):
      return old(o)
    return z3.Or(o == t, old(o))
  st.heap = h.with_('alloc', alloc_now)
  return VRef(t, ty)


def note_alloc(v, st):
  """Everything read from the pre-state or the heap is an allocated object."""
  if isinstance(v, VRef) and v.ty.kind in ('set', 'dict', 'list', 'obj'):
    st.assume(st.heap.alloc(v.t))
  return v


def new_set(st, pred, ty=None, cls_name=None):
  r = alloc_obj(st, ty or Ty('set', (ANY,)), 'set', cls_name)
  old = st.heap.get('mem')
  st.heap = st.heap.with_('mem', upd2(old, r.t, pred))
  return r


def set_update(st, s, fn):
  """In-place update of the set object s: new membership = fn(old_pred)(e)."""
  old = st.heap.get('mem')
  st.heap = st.heap.with_('mem', lambda x, e: z3.If(x == s, fn(lambda y: old(s, y))(e), old(x, e)))


def new_list(st, items_u, ty=None):
  r = alloc_obj(st, ty or Ty('list', (ANY,)), 'list')
  oldlen, olditem = st.heap.get('len'), st.heap.get('item')
  oldl = st.heap.get('lmem')
  st.heap = st.heap.with_('lmem', upd2(oldl, r.t, lambda e: z3.Or([e == u for u in items_u]) if items_u
                                       else z3.BoolVal(False)))
  n = len(items_u)

  def item(l, i):
    t = olditem(l, i)
    for idx in range(n - 1, -1, -1):
      t = z3.If(z3.And(l == r.t, i == idx), items_u[idx], t)
    return t
  st.heap = st.heap.with_('len', upd1(oldlen, r.t, z3.IntVal(n))).with_('item', item)
  return r


NAMED_ITEMS = [True]


def new_list_sym(st, length, itemfn, ty=None, mempred=None):
  """Fresh list with symbolic length and element function (i -> U term)."""
  r = alloc_obj(st, ty or Ty('list', (ANY,)), 'list')
  oldlen, olditem = st.heap.get('len'), st.heap.get('item')
  oldl = st.heap.get('lmem')
  if mempred is None:
    P = ufn(fresh_name('lmemof'), U, B)
    i = z3.Const(fresh_name('li'), I)
    st.assume(ForAllT([i], z3.Implies(z3.And(i >= 0, i < length), P(itemfn(i)))))
    mempred = lambda e: P(e)
  st.heap = st.heap.with_('lmem', upd2(oldl, r.t, mempred))
  if NAMED_ITEMS[0]:
    # the element function gets a name, defined by an axiom with the name as its trigger: instantiation
    # chains through comprehension / concatenation layers then follow ground terms instead of If-terms
    nm = ufn(fresh_name('itemof'), I, U)
    j = z3.Const(fresh_name('lj'), I)
    st.assume(z3.ForAll([j], nm(j) == itemfn(j), patterns=[nm(j)]))
    named = lambda i: nm(i)
  else:
    named = itemfn
  st.heap = st.heap.with_('len', upd1(oldlen, r.t, length)).with_(
      'item', lambda l, i: obj_ite(l, r.t, lambda: named(i), lambda: olditem(l, i)))
  return r


def new_dict(st, pairs_u, ty=None):
  r = alloc_obj(st, ty or Ty('dict', (ANY, ANY)), 'dict')
  olddom, oldval = st.heap.get('dom'), st.heap.get('val')

  def dom(d, k):
    return z3.If(d == r.t, z3.Or([k == kk for kk, _ in pairs_u]) if pairs_u else z3.BoolVal(False),
                 olddom(d, k))

  def val(d, k):
    t = oldval(d, k)
    for kk, vv in pairs_u:   # later keys win
      t = z3.If(z3.And(d == r.t, k == kk), vv, t)
    return t
  st.heap = st.heap.with_('dom', dom).with_('val', val)
  return r


def copy_dict(st, src, ty=None):
  """copy.copy of a dict: a fresh dict with the keys and values of src at this moment"""
  r = alloc_obj(st, ty or Ty('dict', (ANY, ANY)), 'dict')
  olddom, oldval = st.heap.get('dom'), st.heap.get('val')
  st.heap = st.heap.with_('dom', lambda d, k: z3.If(d == r.t, olddom(src, k), olddom(d, k))) \
                   .with_('val', lambda d, k: z3.If(d == r.t, oldval(src, k), oldval(d, k)))
  return r


def dict_store(st, d, k, v):
  olddom, oldval = st.heap.get('dom'), st.heap.get('val')
  st.heap = st.heap.with_('dom', lambda x, y: z3.If(z3.And(x == d, y == k), z3.BoolVal(True), olddom(x, y))) \
                   .with_('val', lambda x, y: z3.If(z3.And(x == d, y == k), v, oldval(x, y)))


def dict_del(st, d, k):
  olddom = st.heap.get('dom')
  st.heap = st.heap.with_('dom', lambda x, y: z3.If(z3.And(x == d, y == k), z3.BoolVal(False), olddom(x, y)))


def list_append(st, l, u):
  oldlen, olditem = st.heap.get('len'), st.heap.get('item')
  oldl = st.heap.get('lmem')
  st.heap = st.heap.with_('lmem', lambda x, e: z3.If(x == l, z3.Or(e == u, oldl(x, e)), oldl(x, e)))
  n = oldlen(l)
  st.heap = st.heap.with_('len', upd1(oldlen, l, n + 1)).with_(
      'item', lambda x, i: z3.If(z3.And(x == l, i == n), u, olditem(x, i)))


def _lmem_after_removal(st, l, removed):
  """Membership after removing one occurrence of `removed`: everything else stays, nothing appears."""
  oldl = st.heap.get('lmem')
  P = ufn(fresh_name('lmemrest'), U, B)
  e = z3.Const(fresh_name('le'), U)
  st.assume(ForAllT([e], z3.Implies(P(e), oldl(l, e))))
  st.assume(ForAllT([e], z3.Implies(z3.And(oldl(l, e), e != removed), P(e))))
  st.assume(oldl(l, removed))
  st.heap = st.heap.with_('lmem', upd2(oldl, l, lambda x: P(x)))


def list_pop_front(st, l):
  oldlen, olditem = st.heap.get('len'), st.heap.get('item')
  first = olditem(l, z3.IntVal(0))
  _lmem_after_removal(st, l, first)
  st.assume(z3.Implies(oldlen(l) == 1, z3.Not(st.heap.lmem(l, first))))
  st.heap = st.heap.with_('len', upd1(oldlen, l, oldlen(l) - 1)).with_(
      'item', lambda x, i: z3.If(x == l, olditem(x, i + 1), olditem(x, i)))
  return first


def list_pop_back(st, l):
  oldlen = st.heap.get('len')
  last = st.heap.item(l, oldlen(l) - 1)
  _lmem_after_removal(st, l, last)
  st.assume(z3.Implies(oldlen(l) == 1, z3.Not(st.heap.lmem(l, last))))
  st.heap = st.heap.with_('len', upd1(oldlen, l, oldlen(l) - 1))
  return last


def heap_wf(st, heap, fields, field_kinds=None, value_kinds=None):
  """Reachability closure: whatever an allocated object refers to is allocated (true in every
  reachable Python state).  `fields` = reference-typed field names relevant to the function."""
  o = z3.Const(fresh_name('wo'), U)
  e = z3.Const(fresh_name('we'), U)
  i = z3.Const(fresh_name('wi'), I)
  st.assume(heap.alloc(NONE))
  st.assume(ForAllT([o, e], z3.Implies(z3.And(heap.alloc(o), heap.mem(o, e)), heap.alloc(e))))
  st.assume(ForAllT([o, e], z3.Implies(z3.And(heap.alloc(o), heap.dom(o, e)),
                                         z3.And(heap.alloc(e), heap.alloc(heap.val(o, e))))))
  st.assume(ForAllT([o, i], z3.Implies(z3.And(heap.alloc(o), i >= 0, i < heap.len(o)),
                                         heap.alloc(heap.item(o, i)))))
  st.assume(ForAllT([o, e], z3.Implies(heap.lmem(o, e), heap.len(o) > 0)))
  st.assume(ForAllT([o, e], z3.Implies(z3.And(heap.alloc(o), heap.lmem(o, e)), heap.alloc(e))))
  for f in fields:
    ff = heap.fld(f, U)
    st.assume(ForAllT([o], z3.Implies(heap.alloc(o), heap.alloc(ff(o)))))
    k = (field_kinds or {}).get(f)
    if k is not None:
      # declared container kind of the field (sets, dicts and lists are disjoint kinds of object)
      # (fields declared with a container type are never None; possibly-None fields are declared Opt[...])
      st.assume(ForAllT([o], kindof(ff(o)) == k) if k else z3.BoolVal(True))
    vk = (value_kinds or {}).get(f)
    if vk:
      # declared value type of a dict-valued field: its values are containers of that kind
      st.assume(z3.ForAll([o, e], kindof(heap.val(ff(o), e)) == vk))
  st.assume(kindof(NONE) == 0)
