"""usage: model.py <contract> <obligation index> [timeout_s]: discharge with ob.formula(), print the model's atoms of the negated goal"""
import sys
sys.path.insert(0, '/verif')
from contracts import build_world
from pvc.verify import Exec
import z3
w = build_world()
c = w.contracts[sys.argv[1]]
ex = Exec(w, c)
obs = ex.run()
o = obs[int(sys.argv[2])]
fs = o.formula()
s = z3.Solver(); s.set('timeout', int(sys.argv[3]) * 1000 if len(sys.argv) > 3 else 60000); s.add(fs)
r = s.check()
print(o.name, r)
if r == z3.sat:
  m = s.model()
  fl = fs if isinstance(fs, (list, tuple)) else [fs]
  neg = fl[-1]
  print('NEG GOAL:', str(neg)[:3000])
  seen = set()
  def atoms(e):
    if z3.is_quantifier(e): return
    if z3.is_app(e) and e.sort() == z3.BoolSort() and (e.decl().kind() == z3.Z3_OP_UNINTERPRETED or z3.is_eq(e) or e.decl().kind() in (z3.Z3_OP_LE, z3.Z3_OP_GE, z3.Z3_OP_LT, z3.Z3_OP_GT)):
      k = str(e)
      if k not in seen:
        seen.add(k); print('   ', k[:300].replace('\n', ' '), '=', m.eval(e, model_completion=True))
        for ch in e.children():
          print('        ', str(ch)[:200].replace('\n', ' '), '->', m.eval(ch, model_completion=True))
      return
    for ch in e.children(): atoms(ch)
  atoms(neg)
