import sys
sys.path.insert(0, '/verif')
from contracts import build_world
from pvc.verify import Exec
from pvc.nnf import normalise
import z3
w = build_world()
c = w.contracts[sys.argv[1]]
ex = Exec(w, c)
obs = ex.run()
o = obs[int(sys.argv[2])]
fs = normalise(o.hyps, o.goal)
s = z3.Solver(); s.set('timeout', 30000); s.add(*fs)
print(s.check())
m = s.model()
neg = fs[-1]
print('NEG GOAL:', neg)
seen=set()
def atoms(e):
    if z3.is_quantifier(e): return
    if z3.is_app(e) and e.sort()==z3.BoolSort() and (e.decl().kind()==z3.Z3_OP_UNINTERPRETED or z3.is_eq(e)):
        k=str(e)
        if k not in seen:
            seen.add(k); print('   ', k[:200], '=', m.eval(e, model_completion=True))
        return
    for ch in e.children(): atoms(ch)
atoms(neg)
