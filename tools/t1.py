import sys, time
sys.path.insert(0, '/verif')
from contracts import build_world
from pvc.verify import verify_contract
w = build_world()
names = [a for a in sys.argv[1:] if a != '-v'] or list(w.contracts)
for n in names:
    c = w.contracts[n]
    r = verify_contract(w, c, 20000)
    print(r.status, n, len(r.obligations), 'obl', r.paths, 'paths', '%.2fs' % r.time, r.message[:300])
    for o in r.obligations:
        if o.status != 'proved':
            print('   ', o.status, o.name, '|', o.detail)
            if o.model and '-v' in sys.argv: print('      model:', o.model[:600])
