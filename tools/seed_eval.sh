#!/bin/sh
# usage: seed_eval.sh <Cxx> [outdir]   -- evaluates a seeded change: baseline tests, demo, and our check
id=$1; out=${2:-/tmp/seed_out/$id}
copy=/tmp/seedchk_$id
rm -rf $copy; mkdir -p $copy; cp -r /repo/malt /repo/tests /repo/setup.py $copy/ 2>/dev/null
( cd $copy && patch -p1 -s < $out/patch.diff ) || { echo "PATCH FAILED"; exit 1; }
echo "== patch applied: $(grep -c '^[+-][^+-]' $out/patch.diff) changed lines in $(grep -c '^diff' $out/patch.diff) file(s)"
# demo
d1=$(mktemp -d); ( cd /tmp && TMPDIR=$d1 PYTHONPATH=/repo /venv/bin/python $out/demo.py >/dev/null 2>&1 ); r1=$?; rm -rf $d1
d2=$(mktemp -d); ( cd /tmp && TMPDIR=$d2 PYTHONPATH=$copy /venv/bin/python $out/demo.py >/dev/null 2>&1 ); r2=$?; rm -rf $d2
echo "== demo: unchanged=$r1 changed=$r2"
# baseline on the copy
python3 - "$copy" <<'PY'
import json, subprocess, sys, tempfile, xml.etree.ElementTree as ET, os
copy = sys.argv[1]
base = json.load(open('/root/.vp/BASELINE.json')); want = set(base['stable_pass'])
with tempfile.NamedTemporaryFile(suffix='.xml') as f:
    subprocess.run('cd %s && PYTHONPATH=%s /venv/bin/python -m pytest -q -p no:cacheprovider --timeout=900 --continue-on-collection-errors --junitxml=%s' % (copy, copy, f.name), shell=True, capture_output=True, text=True)
    root = ET.parse(f.name).getroot()
passed = {'%s::%s' % (tc.get('classname'), tc.get('name')) for tc in root.iter('testcase') if not any(ch.tag in ('failure','error','skipped') for ch in tc)}
missing = sorted(want - passed)
print('== baseline on changed tree: %d/%d stable tests pass%s' % (len(want & passed), len(want), '' if not missing else ' MISSING: ' + ', '.join(missing[:5])))
PY
# our check
cp -r /verif/evidence /tmp/evid_save_$$; cd /verif && VERIF_REPO=$copy ./check $id --tier quick 2>&1 | grep -v "^KNOWN-FINDING" | tail -6 | cut -c1-300
echo "== check exit: $?"
rm -rf /verif/evidence; mv /tmp/evid_save_$$ /verif/evidence   # the run above was on a changed tree: restore the evidence files
rm -rf $copy
