#!/bin/sh
# Re-runs ./check on every kept seeded change (scratch copy outside /repo and /verif, removed afterwards) and
# prints which findings fire.  Evidence files are saved and restored (the runs are on changed trees).
cd /verif
save=$(mktemp -d); cp -r evidence $save/
for d in seeded/*/; do
  name=$(basename $d); id=${name%%-*}
  copy=$(mktemp -d /tmp/seedre_XXXXXX)
  cp -r /repo/malt $copy/
  ( cd $copy && patch -p1 -s < /verif/$d/patch.diff ) || { echo "$name PATCH FAILED"; rm -rf $copy; continue; }
  out=$(VERIF_REPO=$copy ./check $id --tier quick 2>&1); rc=$?
  keys=$(for f in $(echo "$out" | grep '^VIOLATION property=' | sed 's/.*replay=\([^ ]*\).*/\1/'); do python3 -c "import json,sys; print(json.load(open('$f'))['key'])"; done | tr '\n' ' ')
  echo "$name exit=$rc violations=$(echo "$out" | grep -c '^VIOLATION property=') undecided=$(echo "$out" | grep -c '^UNDECIDED') keys: $keys" | cut -c1-600
  rm -rf $copy
done
rm -rf evidence; mv $save/evidence evidence; rmdir $save
