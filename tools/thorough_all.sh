#!/bin/sh
# Runs every registered thorough check on /repo itself, sequentially (each uses all cores), and prints exit code
# and wall time; evidence is saved and restored so that the committed evidence stays the quick-tier run.
unset VERIF_REPO
cd /verif
save=$(mktemp -d); cp -r evidence $save/
for p in ${@:-C01 C02 C03 C04 C05 C06 C07 C08 C09 C10 C11 C12 C13 C14 C15 C16 C17 C18 C19 C20}; do
  s=$(date +%s)
  out=$(./check $p --tier thorough 2>&1); r=$?
  e=$(date +%s)
  echo "$p thorough exit=$r $((e-s))s $(echo "$out" | grep -c '^KNOWN-FINDING') known $(echo "$out" | grep -c '^VIOLATION') violations $(echo "$out" | grep -c '^UNDECIDED') undecided"
  [ $r -ne 0 ] && echo "$out" | grep -v '^KNOWN-FINDING' | tail -6 | cut -c1-400
done
rm -rf evidence; mv $save/evidence evidence; rmdir $save
