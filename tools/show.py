import sys, os
sys.path.insert(0, '/verif')
from contracts import build_world
from pvc.verify import Exec
import z3
z3.set_option(max_depth=60, max_lines=400, max_width=150)
w = build_world()
c = w.contracts[sys.argv[1]]
ex = Exec(w, c)
obs = ex.run()
o = obs[int(sys.argv[2])]
print(o.name)
for h in o.hyps:
    t = str(h)
    if t.startswith('subcls(') or t.startswith('Not(subcls(') or t.startswith('Distinct('): continue
    print('H:', t)
print('G:', o.goal)
