#!/bin/sh
# Parallel variant of seed_recheck.sh: usage seed_recheck_par.sh [jobs]  (default 4).  Prints one line per seeded
# change: name, exit code of ./check on the changed tree, number of VIOLATION lines.  Evidence is saved and restored.
cd /verif
jobs=${1:-4}
save=$(mktemp -d); cp -r evidence $save/
ls -d seeded/*/ | xargs -P $jobs -I{} sh -c '
  d={}; name=$(basename $d); id=${name%%-*}
  copy=$(mktemp -d /tmp/seedre_XXXXXX)
  cp -r /repo/malt $copy/
  ( cd $copy && patch -p1 -s < /verif/$d/patch.diff ) || { echo "$name PATCH FAILED"; rm -rf $copy; exit 0; }
  out=$(VERIF_REPO=$copy ./check $id --tier quick 2>&1); rc=$?
  echo "$name exit=$rc violations=$(echo "$out" | grep -c "^VIOLATION property=") undecided=$(echo "$out" | grep -c "^UNDECIDED") first: $(echo "$out" | grep "^VIOLATION property=" | head -3 | sed "s/.*replays\/[^/]*\///; s/\.json.*//" | tr "\n" " ")" | cut -c1-400
  rm -rf $copy'
rm -rf evidence; mv $save/evidence evidence; rmdir $save
