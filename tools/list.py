import sys
sys.path.insert(0, '/verif')
from contracts import build_world
from pvc.verify import Exec, discharge
w = build_world()
c = w.contracts[sys.argv[1]]
ex = Exec(w, c)
obs = ex.run()
for i, o in enumerate(obs):
    discharge(o, 20000)
    if o.status != 'proved': print(i, o.status, o.name)
