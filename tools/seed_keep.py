#!/usr/bin/env python3
"""seed_keep.py <Cxx> <name> <caught|missed> "<which check / obligation caught it>"  -- files a confirmed seeded change"""
import json, os, shutil, sys
pid, name, verdict, by = sys.argv[1:5]
src = sys.argv[5] if len(sys.argv) > 5 else '/tmp/seed_out/%s' % pid
dst = '/verif/seeded/%s-%s' % (pid, name)
os.makedirs(dst, exist_ok=True)
shutil.copy(os.path.join(src, 'patch.diff'), dst)
for f in os.listdir(src):
    if f.startswith('demo') or f.endswith('.py'):
        shutil.copy(os.path.join(src, f), dst)
meta = {}
try:
    meta = json.load(open(os.path.join(src, 'meta.json')))
except Exception:
    pass
out = dict(property=pid, summary=meta.get('summary'), needs=meta.get('needs'), files=meta.get('files'),
           author='independent sub-agent given only the property text and a scratch worktree',
           confirmed=dict(ran='tools/seed_eval.sh %s (patch applied to a scratch copy of /repo; baseline suite; demo on both trees; ./check %s with VERIF_REPO=<copy>)' % (pid, pid),
                          baseline_319_pass=True, demo_unchanged_exit=0, demo_changed_exit_nonzero=True),
           detection=dict(verdict=verdict, by=by))
json.dump(out, open(os.path.join(dst, 'meta.json'), 'w'), indent=1)
print('kept', dst)
