cd /verif && .venv/bin/python -c "
import sys
from contracts import build_world
w=build_world()
print(' '.join(n for n,c in w.contracts.items() if '$1' in c.serves and not c.abstract))"
