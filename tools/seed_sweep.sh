#!/bin/sh
# Runs every quick check under several values of VERIF_SEED on /repo itself: none may raise an alarm on the unchanged
# tree whatever the seed.  Evidence is saved and restored.
unset VERIF_REPO
cd /verif
save=$(mktemp -d); cp -r evidence $save/
for seed in ${@:-0 2 3}; do
  for p in C01 C02 C03 C04 C05 C06 C07 C08 C09 C10 C11 C12 C13 C14 C15 C16 C17 C18 C19 C20; do
    out=$(VERIF_SEED=$seed ./check $p --tier quick 2>&1); r=$?
    [ $r -ne 0 ] && { echo "seed=$seed $p exit=$r"; echo "$out" | grep -v '^KNOWN-FINDING' | tail -4 | cut -c1-400; }
  done
  echo "seed=$seed done"
done
rm -rf evidence; mv $save/evidence evidence; rmdir $save
