#!/usr/bin/env python3
"""Lists finding: lines of known_findings.txt whose key no longer fires on the current tree."""
import json, os, re, subprocess, sys, tempfile
sys.path.insert(0, '/verif')
import tools.record as R  # noqa
