import sys
sys.path.insert(0, '/verif')
from contracts import build_world
from pvc import core
from pvc.verify import Exec
from pvc import event as ev
import z3
w = build_world()
c = w.contracts[sys.argv[1]]
mi = w.module(c.module)
node = mi.find(c.local_name)
core.reset_fresh()
impl = ev.run_event(w, c, node, mi, Exec)
spec = ev.run_event(w, c, ev.parse_spec_program(c.spec), mi, Exec, shared=(impl.param_values, impl.entry_heap, list(impl.requires_hyps), impl))
print(len(impl.segments), len(spec.segments))
i, j = int(sys.argv[2]), int(sys.argv[3])
p = [s for s in impl.segments if s.start == 'entry'][i]
q = [s for s in spec.segments if s.start == 'entry'][j]
for name, s in (('IMPL', p), ('SPEC', q)):
    print(name, 'end', s.end)
    for e in s.trace: print('   ', e.kind, e.fn, e.args, e.kwargs, e.star, e.dstar)
    print('   pc tail:', [str(x)[:100] for x in s.pc[-6:]])
