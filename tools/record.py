#!/usr/bin/env python3
"""Runs stand-in scripts and prints known_findings.txt lines for failures not yet matched (for review)."""
import json, os, re, subprocess, sys, tempfile
sys.path.insert(0, '/verif')
from vlib.report import load_known
PROP = {'c02_functional': 'C02', 'c03_opcontract': 'C03', 'c04_scan': 'C04', 'c05_paths': 'C05', 'c06_lastwriter': 'C06',
        'c07_usebefore': 'C07', 'c08_activity': 'C08', 'c09_interface': 'C09', 'c10_cache': 'C10', 'c11_names': 'C11',
        'c12_errors': 'C12', 'c13_zoo': 'C13', 'c14_builtins': 'C14', 'c15_source': 'C15', 'c16_status_trees': 'C16',
        'c17_tree': 'C17', 'c18_anf': 'C18', 'c19_types': 'C19'}
known = load_known()
for s in sys.argv[1:]:
    d = tempfile.mkdtemp()
    env = dict(os.environ, TMPDIR=d, PYTHONPATH='/verif:/repo')
    p = subprocess.run(['/verif/.venv/bin/python', '/verif/bounded/%s.py' % s, '1', 'quick'], capture_output=True, text=True, env=env, timeout=900)
    subprocess.run(['rm', '-rf', d])
    try:
        res = json.loads(p.stdout.strip().splitlines()[-1])
    except Exception:
        print('# %s: no JSON (%s)' % (s, p.stderr[-200:])); continue
    for f in res['failures']:
        key = 'bounded:%s:%s:%s' % (s, f.get('kind', '?'), str(f.get('sig', ''))[:80])
        if any(pr == PROP[s] and re.fullmatch(kr, key) for pr, kr, _ in known):
            continue
        what = re.sub(r'\s+', ' ', str(f.get('what', '')))[:260]
        print('finding: property=%s key=%s :: %s' % (PROP[s], re.escape(key).replace('\\-', '-').replace('\\:', ':').replace('\\_', '_'), what))
