import sys
sys.path.insert(0, '/verif')
from contracts import build_world
from pvc.verify import Exec, discharge
w = build_world()
c = w.contracts[sys.argv[1]]
c.ensures = sys.argv[2:]
ex = Exec(w, c)
obs = ex.run()
for o in obs:
    if o.name.startswith('ensures/'):
        discharge(o, 20000)
        print(o.status, '%.1fs' % o.time, o.name, '|', o.detail[:110])
