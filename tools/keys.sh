#!/bin/sh
# prints the finding keys a stand-in script reports on the current tree
s=$1; shift
mkdir -p /tmp/vt_keys
TMPDIR=/tmp/vt_keys PYTHONPATH=/verif:/repo timeout 900 /verif/.venv/bin/python /verif/bounded/$s.py ${1:-1} quick 2>/dev/null | tail -1 | python3 -c "
import sys,json
d=json.loads(sys.stdin.read())
print('$s evaluated', d.get('evaluated'), 'nontrivial', d.get('distinct_nontrivial'))
for f in d['failures']: print('bounded:$s:%s:%s ::' % (f.get('kind'), str(f.get('sig',''))[:80]), str(f.get('what'))[:220])
"
rm -rf /tmp/vt_keys
