import sys, time
sys.path.insert(0, '/verif')
from vlib import runner
from contracts import build_world
w = build_world()
names = [n for n, c in w.contracts.items() if not c.abstract and c.serves]
t = time.time()
res = runner.verify_many(names, 30000)
for r in res:
    if r['status'] != 'proved':
        print(r['status'], r['function'], r['time_s'], r['message'][:150], [f['name'] for f in r['failed']][:5])
print(len(res), 'functions', sum(r['obligations'] for r in res), 'obligations', sum(1 for r in res if r['status']=='proved'), 'proved', '%.1fs' % (time.time()-t))
