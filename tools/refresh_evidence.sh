#!/bin/sh
# Re-runs every registered quick check on /repo itself (as the harness does: VERIF_SEED=1 VERIF_TIER=quick) so that
# the committed evidence files describe a run on the unchanged tree.  Never run with VERIF_REPO set.
unset VERIF_REPO
cd /verif
export VERIF_SEED=1 VERIF_TIER=quick
rc=0
for p in C01 C02 C03 C04 C05 C06 C07 C08 C09 C10 C11 C12 C13 C14 C15 C16 C17 C18 C19 C20; do
  s=$(date +%s)
  out=$(./check $p --tier quick 2>&1); r=$?
  e=$(date +%s)
  echo "$p exit=$r $((e-s))s $(echo "$out" | grep -c '^KNOWN-FINDING') known $(echo "$out" | grep -c '^VIOLATION') violations $(echo "$out" | grep -c '^UNDECIDED') undecided"
  [ $r -ne 0 ] && { rc=1; echo "$out" | grep -v '^KNOWN-FINDING' | tail -5; }
done
/verif/.venv/bin/python vlib/validate.py | tail -21 | awk '{print $1, $2, $3, $4}' | tr '\n' ';'
exit $rc
